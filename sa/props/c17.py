"""C17 - malformed inputs are rejected at assignment, valid ones stored faithfully.

Decided clauses (validation discipline):
  S1  validate-before-store: in every property setter of the object classes each store to self._x has as value a validator
      result on the parameter / a value derived only from validated values / follows a guard that raises; and no validator
      on the user parameter runs after the first store (object unchanged on rejection)
  S2  the value stored by each array-valued setter is a fresh copy (ORIGIN analysis, origin_rules.c17_s2)
  S3  the shape documented in the validator call's `sig_type` text agrees with its configuration (dims / shape_m1 / length)
  S3b every relational constraint a validator documents in its error text is enforced by a raising comparison of the same quantities
  S4  every constraint argument a call site passes to a validator is consulted on every accepting path of the validator
      (literal keyword arguments partially evaluated into the validator and its helpers)
  S5  None-flow: the result of a validator called with allow_None=True reaches no arithmetic / norm / comparison unguarded
  S6  constructor = setter: no __init__ of an object class stores a raw parameter into a private attribute
Not decided: read-back equality, semantic validity beyond shape/sign, exception types outside attribute setters.
"""
from __future__ import annotations

import ast
import re

from common import AnalysisError, Finding, norm
from flow import BaseClient, function_exits
from repo import call_name, kw, lit

EXPLANATION = ("validation discipline of all property setters and validators: taint-style validate-before-store on a structured CFG, "
               "documented-shape vs. validator-configuration cross-check, path enumeration of each validator per call site proving that every "
               "passed constraint is consulted on every accepting path, None-flow, constructor/setter agreement, fresh-copy storage. "
               "Decides that the checks are wired and ordered so that rejection leaves the object unchanged; not value-level read-back equality.")

OBJ_PKG = "magpylib._src.obj_classes"
LAZY_OK = {("BaseGeo.__init__", "_style_kwargs"): "style input is kept and validated lazily on first style access (documented: lazily initialised styles)",
           ("BaseSource.__init__", "_field_func"): None}


def is_validator_name(n):
    return bool(n) and (n.startswith("check_") or n.startswith("validate_") or n.startswith("_validate_")
                        or n in ("format_obj_input", "format_star_input"))


def is_validator_call(c):
    """input validators are module-level functions called by name (input_checks.check_*/validate_*) or `_validate_*` methods;
    `self.check_open(...)` and friends are mesh status computations, not input validators"""
    if not isinstance(c, ast.Call):
        return False
    if isinstance(c.func, ast.Name):
        return is_validator_name(c.func.id)
    if isinstance(c.func, ast.Attribute):
        return c.func.attr.startswith(("_validate_", "validate_", "_input_check", "_check_input"))
    return False


# ------------------------------------------------------------------------------------------------ S1
class S1Client(BaseClient):
    """facts: ('V', name) name holds a validated/derived value; ('STORED',) some self._x was written"""

    def __init__(self, fn, params, res_hook):
        self.fn, self.params, self.hook = fn, set(params), res_hook
        self.guards = {}
        for n in ast.walk(fn):
            if isinstance(n, ast.If):
                names = {x.id for x in ast.walk(n.test) if isinstance(x, ast.Name)} & self.params
                if not names:
                    continue
                body_raises = bool(n.body) and isinstance(n.body[-1], ast.Raise)
                else_raises = bool(n.orelse) and isinstance(n.orelse[-1], ast.Raise)
                t_, pos = n.test, True
                while isinstance(t_, ast.UnaryOp) and isinstance(t_.op, ast.Not):
                    t_, pos = t_.operand, not pos        # flow.py hands the stripped test to assume()
                if body_raises and not else_raises:
                    self.guards[id(t_)] = (not pos, names)
                elif else_raises and not body_raises:
                    self.guards[id(t_)] = (pos, names)

    def call_may_raise(self, call):
        return is_validator_call(call)

    def assume(self, test, branch, S):
        g = self.guards.get(id(test))
        if g and g[0] == branch:
            # value-level guard (membership / isinstance / comparison on the parameter itself)
            if not any(isinstance(x, ast.Call) and not (isinstance(x.func, ast.Name) and x.func.id in ("isinstance", "len", "callable"))
                       for x in ast.walk(test)):
                return frozenset({frozenset(f for f in w if not (f[0] == "T" and f[1] in g[1])) | {("V", n) for n in g[1]} for w in S})
        return S

    def tainted(self, expr, w):
        bad = []
        for x in ast.walk(expr):
            if isinstance(x, ast.Name) and isinstance(x.ctx, ast.Load):
                if x.id in self.params and ("V", x.id) not in w:
                    bad.append(x.id)
                elif ("T", x.id) in w:
                    bad.append(x.id)
        return bad

    def clean_value(self, v, w):
        """expression yields a validated value?"""
        if is_validator_call(v):
            return True
        return not self.tainted(v, w)

    def transfer(self, s, S):
        out = set()
        for w in S:
            w = set(w)
            # validator calls anywhere in the statement (order rule)
            for c in ast.walk(s):
                if is_validator_call(c):
                    args = list(c.args) + [k.value for k in c.keywords]
                    user = [a for a in args if self.tainted(a, w)]
                    if user and ("STORED",) in w:
                        self.hook("order", s, f"validator {call_name(c)} runs on the user value after a store to the object")
                    if isinstance(s, ast.Expr) and s.value is c:
                        for a in c.args[:1]:
                            if isinstance(a, ast.Name):
                                w.add(("V", a.id))
            if isinstance(s, (ast.Assign, ast.AnnAssign, ast.AugAssign)):
                targets = s.targets if isinstance(s, ast.Assign) else [s.target]
                val = s.value
                for t in targets:
                    if isinstance(t, ast.Name):
                        if val is not None and self.clean_value(val, w):
                            w.add(("V", t.id))
                            w.discard(("T", t.id))
                        else:
                            w.discard(("V", t.id))
                            w.add(("T", t.id))
                    elif isinstance(t, ast.Attribute) and isinstance(t.value, ast.Name) and t.value.id == "self":
                        ok = val is not None and self.clean_value(val, w)
                        self.hook("store", s, None if ok else f"stores a value derived from unvalidated {sorted(set(self.tainted(val, w)))}", attr=t.attr)
                        if t.attr.startswith("_"):
                            w.add(("STORED",))
                    elif isinstance(t, (ast.Tuple, ast.List)):
                        for e in ast.walk(t):
                            if isinstance(e, ast.Name):
                                if val is not None and self.clean_value(val, w):
                                    w.add(("V", e.id))
                                else:
                                    w.add(("T", e.id))
                            elif isinstance(e, ast.Attribute) and isinstance(e.value, ast.Name) and e.value.id == "self":
                                ok = val is not None and self.clean_value(val, w)
                                self.hook("store", s, None if ok else f"stores a value derived from unvalidated {sorted(set(self.tainted(val, w)))}", attr=e.attr)
                                if e.attr.startswith("_"):
                                    w.add(("STORED",))
            out.add(frozenset(w))
        return frozenset(out)


def s1_s6(repo, res):
    n_set = 0
    for c in repo.cls_by_key.values():
        if not c.mod.name.startswith(OBJ_PKG):
            continue
        items = [(n, f, True) for n, f in c.setters.items()]
        if "__init__" in c.methods:
            items.append(("__init__", c.methods["__init__"], False))
        for name, fn, is_setter in items:
            qn = f"{c.name}.{name}" + (" (setter)" if is_setter else "")
            params = [a.arg for a in fn.args.posonlyargs + fn.args.args + fn.args.kwonlyargs if a.arg != "self"]
            if fn.args.vararg:
                params.append(fn.args.vararg.arg)
            if fn.args.kwarg:
                params.append(fn.args.kwarg.arg)
            events = []

            def hook(kind, s, problem, attr=None, events=events):
                events.append((kind, s, problem, attr))
            cl = S1Client(fn, params, hook)
            function_exits(fn, cl, frozenset({frozenset()}))
            seen = set()
            for kind, s, problem, attr in events:
                key = (kind, id(s), problem)
                if key in seen:
                    continue
                seen.add(key)
                rule = "S1" if is_setter else "S6"
                if kind == "store":
                    if not is_setter and not (attr or "").startswith("_"):
                        # public attribute assigned in __init__: goes through the property setter (S6 satisfied by construction)
                        res.ob(f"S6:{qn}:{attr}", True, {"rule": "S6", "init": qn, "assigns_via_property": attr}, nontrivial=True)
                        continue
                    triaged = (qn.replace(" (setter)", ""), attr) in LAZY_OK
                    ok = problem is None or triaged
                    # a problem in one world and none in another world for the same statement: keep the problem
                    res.ob(f"{rule}:{qn}:{norm(s)}", ok, {"rule": rule, "function": qn, "store": norm(s), "verdict": "validated" if problem is None else problem})
                    if not ok:
                        res.add(Finding(rule, c.mod.rel, qn, s, problem, s.lineno))
                else:
                    res.ob(f"{rule}:order:{qn}:{norm(s)}", False)
                    res.add(Finding(rule, c.mod.rel, qn, s, problem, s.lineno))
            n_set += 1
    res.analysed["setters_and_inits_analysed"] = n_set
    res.require(n_set >= 30, f"only {n_set} setters/constructors found in {OBJ_PKG}")


# ------------------------------------------------------------------------------------------------ S3
SHAPE_RE = re.compile(r"shape\s*\(([^)]*)\)")
_MORE_RE = re.compile(r"\s*(?:or|,)\s*\(([^)]*)\)")


def documented_shapes(text):
    """all shape tuples of a `shape (3,) or (n,3)` phrase (every alternative, not only the first)"""
    out = []
    for m in SHAPE_RE.finditer(text):
        out.append(m.group(1))
        pos = m.end()
        while True:
            m2 = _MORE_RE.match(text, pos)
            if not m2:
                break
            out.append(m2.group(1))
            pos = m2.end()
    return out



def s3(repo, res):
    n_sites = parsed = 0
    for m, qn, fn, cl in repo.all_functions():
        for c in ast.walk(fn):
            if not (isinstance(c, ast.Call) and call_name(c) == "check_format_input_vector"):
                continue
            n_sites += 1
            st = kw(c, "sig_type")
            text = lit(st)
            if not isinstance(text, str):
                try:
                    text = ast.unparse(st)
                except Exception:
                    text = ""
            shapes = documented_shapes(text or "")
            dims = lit(kw(c, "dims"))
            if dims is None and isinstance(kw(c, "dims"), ast.Call) and call_name(kw(c, "dims")) == "range":
                a = [lit(x) for x in kw(c, "dims").args]
                dims = tuple(range(*a)) if all(isinstance(x, int) for x in a) else None
            m1 = lit(kw(c, "shape_m1"))
            length = lit(kw(c, "length"))
            if not shapes or dims is None:
                res.notes.append(f"S3 skipped (unparseable): {qn}: {text[:60]!r}")
                continue
            parsed += 1
            problems = []
            for sh in shapes:
                parts = [p.strip() for p in sh.split(",") if p.strip()]
                rank = len(parts)
                if "..." in parts:
                    continue
                if rank not in dims:
                    problems.append(f"documented rank {rank} not in dims={dims}")
                if parts and parts[-1].isdigit() and m1 not in ("any", None) and int(parts[-1]) != m1:
                    problems.append(f"documented last dimension {parts[-1]} != shape_m1={m1}")
                if rank >= 2 and parts[0].isdigit():
                    if length is None:
                        problems.append(f"documented leading dimension {parts[0]} but no length= is enforced")
                    elif int(parts[0]) != length:
                        problems.append(f"documented leading dimension {parts[0]} != length={length}")
                if rank >= 2 and not parts[0].isdigit() and length is not None:
                    problems.append(f"free leading dimension documented but length={length} enforced")
            res.ob(f"S3:{qn}:{text[:50]}", not problems, {"rule": "S3", "site": qn, "documented": shapes, "dims": dims, "shape_m1": m1, "length": length})
            for p in problems:
                res.add(Finding("S3", m.rel, qn, f"sig_type={text[:70]!r}", p, c.lineno))
    res.analysed["validator_call_sites"] = n_sites
    res.analysed["S3_parsed"] = parsed
    res.require(parsed >= 10, f"S3: only {parsed} documented shapes parsed (expected >= 10)")


def s3b(repo, res):
    """documented relational constraints (e.g. "r1<r2, phi1<phi2 and phi2-phi1<=360" in a validator's sig_type text) are each enforced by
    a raising comparison of the same quantities in that validator"""
    ic = repo.mod("magpylib._src.input_checks")
    n = 0
    rel = re.compile(r"([A-Za-z_][\w]*(?:\s*[-+]\s*[A-Za-z_][\w]*)?)\s*(<=|>=|<|>)\s*([A-Za-z_][\w]*|\d+(?:\.\d+)?)")
    neg = {"<": ">=", "<=": ">", ">": "<=", ">=": "<"}
    flip = {"<": ">", "<=": ">=", ">": "<", ">=": "<="}
    for fname, fn in ic.funcs.items():
        if not fname.startswith("check_format_input"):
            continue
        texts = []
        for c in ast.walk(fn):
            if isinstance(c, ast.Call):
                st = kw(c, "sig_type")
                if st is not None:
                    t = lit(st)
                    texts.append(t if isinstance(t, str) else "")
        cons = [m for t in texts for m in rel.findall(t or "")]
        if not cons:
            continue
        raises = any(isinstance(x, ast.Raise) for x in ast.walk(fn))
        cmps = set()
        for c in ast.walk(fn):
            if isinstance(c, ast.Compare) and len(c.ops) == 1:
                op = {ast.Lt: "<", ast.LtE: "<=", ast.Gt: ">", ast.GtE: ">="}.get(type(c.ops[0]))
                if op:
                    a = re.sub(r"[\s()]", "", ast.unparse(c.left))
                    b = re.sub(r"[\s()]", "", ast.unparse(c.comparators[0]))
                    cmps.add((a, op, b))
                    cmps.add((b, flip[op], a))
        for a, op, b in cons:
            n += 1
            a_, b_ = re.sub(r"\s", "", a), re.sub(r"\s", "", b)
            # enforced if the validator tests the violating condition (strict or not: the boundary convention is the validator's)
            viol = {(a_, neg[op], b_), (a_, {"<": ">", "<=": ">", ">": "<", ">=": "<"}[op], b_)}
            ok = raises and bool(viol & cmps)
            res.ob(f"S3b:{fname}:{a_}{op}{b_}", ok, {"rule": "S3b", "validator": fname, "documented_constraint": f"{a_} {op} {b_}", "enforced": ok})
            if not ok:
                res.add(Finding("S3b", ic.rel, fname, f"documented constraint {a_} {op} {b_}",
                                "the validator's own error text promises this constraint but no raising comparison of these quantities enforces it", fn.lineno))
    res.analysed["S3b_documented_constraints"] = n
    res.require(n >= 3, f"S3b: only {n} documented relational constraints found")


def s9(repo, res):
    """a validator that compares an input shape against a required shape *list* element by element (zip / index loop) must also compare
    the number of dimensions - zip() stops at the shorter one, so extra or missing axes would pass"""
    ic = repo.mod("magpylib._src.input_checks")
    n = 0
    for fname, fn in ic.funcs.items():
        zips = [c for c in ast.walk(fn) if isinstance(c, ast.Call) and getattr(c.func, "id", "") == "zip" and any(".shape" in ast.unparse(a) for a in c.args)]
        if not zips:
            continue
        n += 1
        rank = [c for c in ast.walk(fn) if isinstance(c, ast.Compare) and (".ndim" in ast.unparse(c) or "len(" in ast.unparse(c) and "shape" in ast.unparse(c))]
        raises = any(isinstance(x, ast.Raise) for x in ast.walk(fn))
        ok = bool(rank) and raises
        res.ob(f"S9:{fname}", ok, {"rule": "S9", "validator": fname, "pairwise_shape_comparison": norm(zips[0]), "rank_comparisons": [norm(x) for x in rank]})
        if not ok:
            res.add(Finding("S9", ic.rel, fname, zips[0], "shapes are compared pairwise with zip() but the number of dimensions is never compared: inputs with "
                            "extra or missing axes are accepted", zips[0].lineno))
    res.require(n >= 1, "S9: no pairwise shape comparison found (anchor check_format_input_vector2 changed)")


def s8(repo, res):
    """type gate: every input validator decides on the *type* of the value before converting it - an isinstance test, is_array_like,
    or delegation to a validator that has one.  Duck typing (`float(x)` in a try block) accepts numeric strings etc."""
    ic = repo.mod("magpylib._src.input_checks")
    gates = {}
    for fname, fn in ic.funcs.items():
        if not fname.startswith("check_format_input"):
            continue
        gate = []
        for c in ast.walk(fn):
            if isinstance(c, ast.Call):
                nm = call_name(c)
                if nm == "isinstance" or nm == "is_array_like" or (nm or "").startswith("check_format_input") and nm != fname:
                    gate.append(nm)
        if any(isinstance(c, ast.Compare) and isinstance(c.ops[0], (ast.In, ast.NotIn)) for c in ast.walk(fn)):
            gate.append("membership test")
        gates[fname] = gate
    for fname, gate in gates.items():
        ok = bool(gate)
        res.ob(f"S8:{fname}", ok, {"rule": "S8", "validator": fname, "type_gates": sorted(set(gate))})
        if not ok:
            res.add(Finding("S8", ic.rel, fname, "no type gate", "the validator converts its input without testing its type first (duck typing): values of the "
                            "wrong type that happen to convert (numeric strings, bytes) are accepted and stored", ic.funcs[fname].lineno))
    res.require(len(gates) >= 10, "S8: validators vanished")


# ------------------------------------------------------------------------------------------------ S4
CONSTRAINT_PARAMS = {"dims", "shape_m1", "length", "forbid_negative0", "forbid_negative", "reshape", "shape", "allow_None", "init_format",
                     "allow", "recursive", "typechecks"}
UNKNOWN = object()


class PathEnum:
    """enumerate paths of a (validator) function with constant propagation of literal arguments; collect parameter reads"""

    def __init__(self, repo, mod):
        self.repo, self.mod = repo, mod
        self.memo = {}
        self.budget = 20000

    def ev(self, e, env, reads):
        """tiny evaluator: returns python value or UNKNOWN; records Name loads of parameters in reads"""
        if isinstance(e, ast.Constant):
            return e.value
        if isinstance(e, ast.Name):
            if e.id in env:
                reads.add(e.id)
                return env[e.id]
            return {"None": None, "True": True, "False": False}.get(e.id, UNKNOWN)
        if isinstance(e, (ast.Tuple, ast.List)):
            vs = [self.ev(x, env, reads) for x in e.elts]
            return UNKNOWN if any(v is UNKNOWN for v in vs) else tuple(vs)
        if isinstance(e, ast.UnaryOp) and isinstance(e.op, ast.Not):
            v = self.ev(e.operand, env, reads)
            return UNKNOWN if v is UNKNOWN else (not v)
        if isinstance(e, ast.BoolOp):
            vals = []
            for x in e.values:
                v = self.ev(x, env, reads)
                if v is not UNKNOWN:
                    if isinstance(e.op, ast.And) and not v:
                        return v
                    if isinstance(e.op, ast.Or) and v:
                        return v
                vals.append(v)
            return UNKNOWN if any(v is UNKNOWN for v in vals) else vals[-1]
        if isinstance(e, ast.Compare) and len(e.ops) == 1:
            a, b = self.ev(e.left, env, reads), self.ev(e.comparators[0], env, reads)
            if a is UNKNOWN or b is UNKNOWN:
                return UNKNOWN
            op = e.ops[0]
            try:
                return {ast.Is: lambda: a is b, ast.IsNot: lambda: a is not b, ast.Eq: lambda: a == b, ast.NotEq: lambda: a != b,
                        ast.In: lambda: a in b, ast.NotIn: lambda: a not in b}[type(op)]()
            except Exception:
                return UNKNOWN
        if isinstance(e, ast.Call) and isinstance(e.func, ast.Name) and e.func.id == "isinstance" and len(e.args) == 2:
            v = self.ev(e.args[0], env, reads)
            tname = ast.unparse(e.args[1])
            if v is not UNKNOWN:
                tmap = {"tuple": tuple, "list": list, "str": str, "int": int, "bool": bool, "dict": dict}
                if tname in tmap:
                    return isinstance(v, tmap[tname])
            return UNKNOWN
        # anything else: walk for reads
        for x in ast.walk(e):
            if isinstance(x, ast.Name) and x.id in env:
                reads.add(x.id)
        return UNKNOWN

    def call_reads(self, call, env, reads):
        """a call to a repo validator/helper: which of *our* params does it consult on all of its accepting paths"""
        nm = call_name(call)
        r = self.repo.resolve_name(self.mod, nm) if isinstance(call.func, ast.Name) else None
        if not r or r[0] != "func":
            for x in ast.walk(call):
                if isinstance(x, ast.Name) and x.id in env:
                    reads.add(x.id)
            return
        callee = r[2]
        cparams = [a.arg for a in callee.args.posonlyargs + callee.args.args + callee.args.kwonlyargs]
        bind_expr = {}
        for p, a in zip(cparams, call.args):
            bind_expr[p] = a
        for k in call.keywords:
            if k.arg:
                bind_expr[k.arg] = k.value
        cenv = self.default_env(callee)
        for p, a in bind_expr.items():
            cenv[p] = self.ev(a, env, set())
        stack = getattr(self, "stack", ())
        if callee.name in stack or len(stack) > 6:
            acc = []          # recursive helper: assume it consults everything it is given
        else:
            sub = PathEnum(self.repo, r[1])
            sub.budget = self.budget
            sub.stack = stack + (callee.name,)
            acc = sub.accepting_reads(callee, cenv)
            self.budget = sub.budget
        consulted = set.intersection(*acc) if acc else set(cparams)
        for p, a in bind_expr.items():
            if p in consulted or p not in CONSTRAINT_PARAMS:
                for x in ast.walk(a):
                    if isinstance(x, ast.Name) and x.id in env:
                        reads.add(x.id)

    def default_env(self, fn):
        env = {}
        a = fn.args
        params = a.posonlyargs + a.args
        for p, d in zip(params[len(params) - len(a.defaults):], a.defaults):
            v = lit(d, UNKNOWN)
            env[p.arg] = v
        for p in params[: len(params) - len(a.defaults)]:
            env[p.arg] = UNKNOWN
        for p, d in zip(a.kwonlyargs, a.kw_defaults):
            env[p.arg] = UNKNOWN if d is None else lit(d, UNKNOWN)
        return env

    def accepting_reads(self, fn, env):
        """list of read-sets, one per path that returns without raising"""
        out = []

        def block(stmts, env, reads):
            """generator of (env, reads, status) with status in 'fall','ret','raise'"""
            if not stmts:
                yield env, reads, "fall"
                return
            s, rest = stmts[0], stmts[1:]
            for e2, r2, st in stmt(s, env, reads):
                if st == "fall":
                    yield from block(rest, e2, r2)
                else:
                    yield e2, r2, st

        def stmt(s, env, reads):
            self.budget -= 1
            if self.budget < 0:
                raise AnalysisError("S4 path enumeration budget exhausted")
            reads = set(reads)
            if isinstance(s, ast.Return):
                if s.value is not None:
                    self.scan(s.value, env, reads)
                yield env, reads, "ret"
            elif isinstance(s, ast.Raise):
                yield env, reads, "raise"
            elif isinstance(s, ast.If):
                v = self.ev(s.test, env, reads)
                self.scan_calls(s.test, env, reads)
                if v is UNKNOWN or v:
                    yield from block(s.body, dict(env), reads)
                if v is UNKNOWN or not v:
                    yield from block(s.orelse, dict(env), reads)
            elif isinstance(s, (ast.For, ast.While)):
                self.scan(s.iter if isinstance(s, ast.For) else s.test, env, reads)
                body_paths = list(block(s.body, dict(env), reads))   # one iteration
                # zero iterations: vacuous for per-element constraints - credit what every single iteration consults
                acc_paths = [r2 for _, r2, st in body_paths if st != "raise"]         # an iteration that raises accepts nothing
                common_reads = set.intersection(*acc_paths) if acc_paths else set()
                yield env, reads | common_reads, "fall"
                for e2, r2, st in body_paths:
                    yield e2, r2, ("fall" if st == "fall" else st)
            elif isinstance(s, ast.Try):
                for e2, r2, st in block(s.body, dict(env), reads):
                    yield e2, r2, st
                for h in s.handlers:
                    yield from block(h.body, dict(env), reads)
            elif isinstance(s, ast.With):
                yield from block(s.body, env, reads)
            else:
                if isinstance(s, ast.Assign) and len(s.targets) == 1 and isinstance(s.targets[0], ast.Name):
                    v = self.ev(s.value, env, reads)
                    self.scan_calls(s.value, env, reads)
                    env = dict(env)
                    # re-binding a parameter name (`inp = make_float_array(inp, ...)`) keeps it a tracked, unknown value
                    env[s.targets[0].id] = v if not isinstance(s.value, ast.Call) else UNKNOWN
                else:
                    self.scan(s, env, reads)
                yield env, reads, "fall"

        for e2, r2, st in block(fn.body, dict(env), set()):
            if st in ("ret", "fall"):
                out.append(r2)
        return out

    def scan_calls(self, e, env, reads):
        for c in ast.walk(e):
            if isinstance(c, ast.Call):
                self.call_reads(c, env, reads)

    def scan(self, node, env, reads):
        calls = [c for c in ast.walk(node) if isinstance(c, ast.Call) and isinstance(c.func, ast.Name)
                 and (self.repo.resolve_name(self.mod, c.func.id) or (None,))[0] == "func"]
        in_calls = set()
        for c in calls:
            self.call_reads(c, env, reads)
            for x in ast.walk(c):
                in_calls.add(id(x))
        for x in ast.walk(node):
            if isinstance(x, ast.Name) and x.id in env and id(x) not in in_calls:
                reads.add(x.id)


def s4(repo, res):
    ic = repo.mod("magpylib._src.input_checks")
    validators = {n: f for n, f in ic.funcs.items() if n.startswith("check_format_input") or n in ("check_array_shape",)}
    res.require(len(validators) >= 8, "validators vanished from input_checks")
    n_sites = 0
    for m, qn, fn, cl in repo.all_functions():
        for c in ast.walk(fn):
            if not (isinstance(c, ast.Call) and isinstance(c.func, ast.Name) and c.func.id in validators):
                continue
            r = repo.resolve_name(m, c.func.id)
            if not r or r[0] != "func" or r[1].name != ic.name:
                continue
            callee = validators[c.func.id]
            passed = {k.arg: k.value for k in c.keywords if k.arg in CONSTRAINT_PARAMS}
            if not passed:
                continue
            n_sites += 1
            pe = PathEnum(repo, ic)
            env = pe.default_env(callee)
            cparams = [a.arg for a in callee.args.posonlyargs + callee.args.args + callee.args.kwonlyargs]
            for p, a in zip(cparams, c.args):
                env[p] = lit(a, UNKNOWN)
            for k in c.keywords:
                if k.arg:
                    env[k.arg] = lit(k.value, UNKNOWN)
                    if isinstance(k.value, ast.Call) and call_name(k.value) == "range":
                        env[k.arg] = UNKNOWN
            paths = pe.accepting_reads(callee, env)
            missing = {}
            for reads in paths:
                # the documented None short-circuit consults nothing else
                if env.get("allow_None") is True and not ({"dims", "shape_m1", "length"} & reads) and "allow_None" in reads and len(reads) <= 2:
                    continue
                for p in passed:
                    v = env.get(p, UNKNOWN)
                    inert = v is False or v is None    # passing the neutral value imposes nothing
                    if p not in reads and not inert:
                        missing.setdefault(p, 0)
                        missing[p] += 1
            res.evaluations += len(paths)
            res.ob(f"S4:{qn}:{c.func.id}:{sorted(passed)}", not missing,
                   {"rule": "S4", "site": qn, "validator": c.func.id, "constraints_passed": sorted(passed), "accepting_paths": len(paths),
                    "never_consulted_on_some_path": sorted(missing)})
            for p, k in missing.items():
                res.add(Finding("S4", m.rel, qn, f"{c.func.id}(..., {p}={norm(passed[p])})",
                                f"constraint `{p}` is not consulted on {k} accepting path(s) of the validator", c.lineno))
    res.analysed["S4_call_sites"] = n_sites
    res.require(n_sites >= 15, f"S4: only {n_sites} validator call sites with constraints")


# ------------------------------------------------------------------------------------------------ S5 / R4
_ALLOW_NONE_DEFAULT = {}


def init_allow_none_defaults(repo):
    """validator name -> default of its `allow_None` parameter (True / False), read from the definitions"""
    _ALLOW_NONE_DEFAULT.clear()
    for m, qn, fn, cl in repo.all_functions():
        if cl is not None or not is_validator_name(fn.name):
            continue
        ps = fn.args.posonlyargs + fn.args.args
        dflt = dict(zip([a.arg for a in ps][len(ps) - len(fn.args.defaults):], fn.args.defaults))
        dflt.update({a.arg: d for a, d in zip(fn.args.kwonlyargs, fn.args.kw_defaults) if d is not None})
        if "allow_None" in dflt:
            _ALLOW_NONE_DEFAULT[fn.name] = lit(dflt["allow_None"])


def admits_none(call):
    """the call hands None through: `allow_None=True` given, or not given and True by the validator's default"""
    v = kw(call, "allow_None")
    if v is not None:
        return lit(v) is True
    return _ALLOW_NONE_DEFAULT.get(call_name(call)) is True


class NoneClient(BaseClient):
    """('N', name): name may be None (bound from a validator called with allow_None=True)"""

    def __init__(self, fn, hook):
        self.fn, self.hook = fn, hook

    def call_may_raise(self, call):
        return False

    def assume(self, test, branch, S):
        # `x is None` / `x is not None` / `x` truthiness
        t, neg = test, False
        if isinstance(t, ast.UnaryOp) and isinstance(t.op, ast.Not):
            t, neg = t.operand, True
        name, none_when = None, None
        if isinstance(t, ast.Compare) and len(t.ops) == 1 and isinstance(t.comparators[0], ast.Constant) and t.comparators[0].value is None:
            k = self._key(t.left)
            if k:
                name, none_when = k, isinstance(t.ops[0], ast.Is)
        if name is None:
            return S
        is_none = (branch != neg) == none_when
        if not is_none:
            return frozenset({frozenset(f for f in w if f != ("N", name)) for w in S})
        return S

    @staticmethod
    def _key(e):
        if isinstance(e, ast.Name):
            return e.id
        if isinstance(e, ast.Attribute) and isinstance(e.value, ast.Name) and e.value.id == "self":
            return "self." + e.attr
        return None

    def _refine(self, w, test, branch):
        r = self.assume(test, branch, frozenset({frozenset(w)}))
        return set(next(iter(r))) if r else set(w)

    def uses(self, node, w):
        """names that may be None and are used in arithmetic / calls (other than plain returns, stores, None tests); conditional
        expressions and short-circuit operators guard their later operands (`None if x is None else x * k`, `x is not None and f(x)`)"""
        bad = []

        def rec(x, w):
            if isinstance(x, ast.IfExp):
                rec(x.test, w)
                rec(x.body, self._refine(w, x.test, True))
                rec(x.orelse, self._refine(w, x.test, False))
                return
            if isinstance(x, ast.BoolOp):
                ww = w
                for v in x.values:
                    rec(v, ww)
                    ww = self._refine(ww, v, isinstance(x.op, ast.And))
                return
            self._check(x, w, bad)
            for ch in ast.iter_child_nodes(x):
                rec(ch, w)
        rec(node, set(w))
        return bad

    def _check(self, x, w, bad):
        if isinstance(x, (ast.BinOp, ast.UnaryOp)) and not (isinstance(x, ast.UnaryOp) and isinstance(x.op, ast.Not)):
            for y in ([x.left, x.right] if isinstance(x, ast.BinOp) else [x.operand]):
                k = self._key(y)
                if k and ("N", k) in w:
                    bad.append((k, x))
        if isinstance(x, ast.Call) and not is_validator_name(call_name(x)) and call_name(x) not in ("isinstance", "getattr", "hasattr", "print", "repr", "str"):
            for y in list(x.args) + [k.value for k in x.keywords]:
                k = self._key(y)
                if k and ("N", k) in w:
                    bad.append((k, x))
        if isinstance(x, ast.Compare) and not any(isinstance(c, ast.Constant) and c.value is None for c in x.comparators):
            for y in [x.left] + list(x.comparators):
                k = self._key(y)
                if k and ("N", k) in w:
                    bad.append((k, x))
        if isinstance(x, (ast.Subscript, ast.Attribute)) and isinstance(x.ctx, ast.Load) and isinstance(x.value, (ast.Name, ast.Attribute)):
            k = self._key(x.value)
            if k and ("N", k) in w and not (isinstance(x, ast.Attribute) and k.startswith("self.") is False and x.value.id == "self"):
                if isinstance(x, ast.Subscript) or k != "self":
                    bad.append((k, x))

    def observe(self, expr, S, stmt):
        for w in S:
            for k, x in self.uses(expr, set(w)):
                self.hook(stmt, k, x)

    def transfer(self, s, S):
        out = set()
        for w in S:
            w = set(w)
            for k, x in self.uses(s, w):
                self.hook(s, k, x)
            if isinstance(s, ast.Assign):
                v = s.value
                may_none = isinstance(v, ast.Call) and is_validator_name(call_name(v)) and (
                    admits_none(v) or call_name(v) in ("check_format_input_vertices", "check_format_input_cylinder_segment"))
                alias = self._key(v)
                for t in s.targets:
                    k = self._key(t)
                    if not k:
                        continue
                    if may_none or (alias and ("N", alias) in w):
                        w.add(("N", k))
                    else:
                        w.discard(("N", k))
            out.add(frozenset(w))
        return frozenset(out)


def none_flow(repo, res, rule="S5", only_classes=None):
    init_allow_none_defaults(repo)
    n = 0
    for c in repo.cls_by_key.values():
        if not c.mod.name.startswith(OBJ_PKG):
            continue
        if only_classes and c.name not in only_classes:
            continue
        for name, fn in c.setters.items():
            hits = []

            def hook(s, k, x, hits=hits):
                hits.append((s, k, x))
            has = any(isinstance(x, ast.Call) and is_validator_name(call_name(x)) and admits_none(x) for x in ast.walk(fn))
            if not has:
                continue
            n += 1
            function_exits(fn, NoneClient(fn, hook), frozenset({frozenset()}))
            qn = f"{c.name}.{name} (setter)"
            uniq = {}
            for s, k, x in hits:
                uniq[(norm(x), k)] = (s, k, x)
            res.ob(f"{rule}:{qn}", not uniq, {"rule": rule, "setter": qn, "unguarded_uses_of_possibly_None": [f"{k} in {t}" for (t, k) in uniq]})
            for (t, k), (s, _, x) in uniq.items():
                res.add(Finding(rule, c.mod.rel, qn, x, f"`{k}` may be None (validator called with allow_None=True) and is used here without an `is None` guard", s.lineno))
    res.require(n >= 2, f"{rule}: no setter with allow_None validator found")
    res.analysed[f"{rule}_setters"] = n


IC = "magpylib._src.input_checks"
REPR_WRAPPERS = {"from_quat"}       # R.from_quat(validated quaternions): change of representation, not of value


def s11(repo, res):
    """S11 read-back fidelity (structural part): a setter that validates its argument with a format validator stores the validator's
    result itself in the property's own attribute - not a value re-derived from it by arithmetic or obtained back through another
    property (unit round trips such as (m*mu0)/mu0 are one ulp off for most values)."""
    n = 0
    for c in repo.cls_by_key.values():
        if not c.mod.name.startswith(OBJ_PKG):
            continue
        for name, fn in c.setters.items():
            ps = [a.arg for a in fn.args.args if a.arg != "self"]
            if not ps:
                continue
            p = ps[0]
            vcalls = [x for x in ast.walk(fn) if isinstance(x, ast.Call) and is_validator_name(call_name(x)) and call_name(x).startswith("check_format")
                      and any(isinstance(a, ast.Name) and a.id == p for a in list(x.args) + [k.value for k in x.keywords])]
            if not vcalls:
                continue
            n += 1
            validated = {p}
            for s_ in ast.walk(fn):
                if isinstance(s_, ast.Assign) and any(v is s_.value for v in vcalls):
                    for t in s_.targets:
                        validated |= {x.id for x in ast.walk(t) if isinstance(x, ast.Name)}
            own = f"_{name}"
            stores = [s_ for s_ in ast.walk(fn) if isinstance(s_, ast.Assign) and any(isinstance(t, ast.Attribute) and t.attr == own and isinstance(t.value, ast.Name)
                                                                                       and t.value.id == "self" for t in s_.targets)]
            qn = f"{c.name}.{name} (setter)"
            bad = None

            def faithful(v):
                if isinstance(v, ast.Constant) and v.value is None:
                    return True
                if isinstance(v, ast.Name):
                    return v.id in validated
                if isinstance(v, ast.Call):
                    if any(v is vc for vc in vcalls):
                        return True
                    if call_name(v) in REPR_WRAPPERS and len(v.args) == 1:
                        return faithful(v.args[0])
                return False
            why = ""
            if not stores:
                bad, why = fn, f"never stores `self.{own}` itself: the value read back is whatever another setter re-derives"
            for s_ in stores:
                if not faithful(s_.value):
                    bad, why = s_, f"`self.{own}` receives `{norm(s_.value)}`, not the validated value"
            res.ob(f"S11:{qn}", bad is None, {"rule": "S11", "setter": qn, "validated_names": sorted(validated), "own_stores": [norm(x) for x in stores]})
            if bad is not None:
                res.add(Finding("S11", c.mod.rel, qn, bad if bad is not fn else f"setter of {name}", f"{why}; a valid value is not read back equal "
                                "(e.g. a unit round trip (m*mu0)/mu0 differs in the last bit)", getattr(bad, "lineno", None)))
    res.require(n >= 12, f"S11: only {n} validating setters found (15 confirmed by hand)")
    res.analysed["S11_setters"] = n


def s12(repo, res):
    """S12 the translation of conversion failures into the library's input error is total: a `try` around np.array(<user value>,
    dtype=float) whose handler raises MagpylibBadUserInput catches Exception (OverflowError for huge ints, anything a user object's
    __float__/__array__ raises), not a hand-picked list of types"""
    m = repo.mod(IC)
    n = 0
    for q, fn in m.funcs.items():
        for t in ast.walk(fn):
            if not isinstance(t, ast.Try):
                continue
            conv = [c for b in t.body for c in ast.walk(b) if isinstance(c, ast.Call) and call_name(c) in ("array", "asarray")
                    and any(k.arg == "dtype" for k in c.keywords)]
            if not conv:
                continue
            for h in t.handlers:
                # the handler itself translates (a handler that merely falls through to another input form is not an instance)
                raises = [r for r in h.body if isinstance(r, ast.Raise) and r.exc is not None and "MagpylibBadUserInput" in ast.unparse(r.exc)]
                if not raises:
                    continue
                n += 1
                total = h.type is None or (isinstance(h.type, ast.Name) and h.type.id in ("Exception", "BaseException"))
                res.ob(f"S12:{q}:{norm(conv[0])}", total, {"rule": "S12", "function": q, "conversion": norm(conv[0]), "handler": ast.unparse(h.type) if h.type else "bare"})
                if not total:
                    res.add(Finding("S12", m.rel, q, h, f"conversion failures other than {ast.unparse(h.type)} (OverflowError for 10**400, errors raised by a user "
                                    "object's __float__) escape as foreign exceptions instead of the library's input error", h.lineno))
    res.require(n >= 2, f"S12: only {n} translating handlers found (2 confirmed by hand: make_float_array, check_format_input_observers)")


def s13(repo, res):
    """S13 probe adequacy in validate_field_func: the user callable is probed with an (n,3) observer literal with n >= 2 and n != 3 and
    its output shape is compared with exactly that shape; with n = 1 a callable returning a constant (1,3) row passes and later
    broadcasts silently over all observers"""
    m = repo.mod(IC)
    fn = m.funcs.get("validate_field_func")
    res.require(fn is not None, "anchor vanished: validate_field_func")
    p = fn.args.args[0].arg
    binds = {s_.targets[0].id: s_.value for s_ in ast.walk(fn) if isinstance(s_, ast.Assign) and len(s_.targets) == 1 and isinstance(s_.targets[0], ast.Name)}

    def shape_of_lit(e):
        if isinstance(e, ast.Name) and e.id in binds:
            e = binds[e.id]
        if isinstance(e, ast.Call) and call_name(e) in ("array", "asarray") and e.args:
            e = e.args[0]
        try:
            v = ast.literal_eval(e)
        except Exception:
            return None
        shp = []
        while isinstance(v, (list, tuple)):
            shp.append(len(v)); v = v[0] if v else None
        return tuple(shp)
    probes = [c for c in ast.walk(fn) if isinstance(c, ast.Call) and isinstance(c.func, ast.Name) and c.func.id == p and len(c.args) >= 2]
    res.require(probes, "anchor vanished: probe call of the user callable in validate_field_func")
    for c in probes:
        shp = shape_of_lit(c.args[1])
        ok = shp is not None and len(shp) == 2 and shp[1] == 3 and shp[0] >= 2 and shp[0] != 3
        cmps = [x for x in ast.walk(fn) if isinstance(x, ast.Compare) and len(x.ops) == 1 and any(isinstance(y, ast.Attribute) and y.attr == "shape" for y in (x.left, x.comparators[0]))]
        same = []
        for x in cmps:
            r = x.comparators[0] if (isinstance(x.left, ast.Attribute) and x.left.attr == "shape") else x.left
            rs = shape_of_lit(r) if not isinstance(r, ast.Attribute) else (shp if ast.unparse(r.value) == ast.unparse(c.args[1]) else None)
            if isinstance(r, ast.Tuple):
                try: rs = tuple(ast.literal_eval(r))
                except Exception: rs = None
            same.append(rs == shp)
        ok2 = bool(cmps) and all(same)
        res.ob(f"S13:{norm(c)}", ok and ok2, {"rule": "S13", "probe": norm(c), "probe_shape": shp, "shape_comparisons": [norm(x) for x in cmps]})
        if not ok:
            res.add(Finding("S13", m.rel, "validate_field_func", c, f"the probe observers have shape {shp}: with fewer than two rows (or exactly three) an output of "
                            "fixed or transposed shape is indistinguishable from a correct (n,3) result and is accepted", c.lineno))
        elif not ok2:
            res.add(Finding("S13", m.rel, "validate_field_func", cmps[0] if cmps else c, f"the output shape is not compared with the probe's shape {shp}", (cmps[0] if cmps else c).lineno))


def s14_s16(repo, res):
    """validator hygiene in input_checks.py
    S14 scalar gates accept every real number type: `isinstance(x, numbers.Number)` (NumPy scalars such as np.int64 / np.float32, e.g.
        elements of np.arange, are Numbers but not `int` / `float`); a gate on `(int, float)` rejects valid scalars
    S15 the raw user value reaches NumPy only inside the translating `try` of make_float_array (or another try whose handler raises the
        input error): np.ndim / np.shape / np.array / np.asarray / len(np...) on the untouched parameter elsewhere raise foreign errors
        for ragged input before the translation can happen
    S16 sign / zero constraints on a vector are tested element by element (np.any / np.all / a mask), never on an aggregate of the
        entries (np.prod, np.sum, np.min of a product ...): in a product two negative sizes cancel"""
    m = repo.mod(IC)
    n14 = n15 = n16 = 0
    for q, fn in m.funcs.items():
        if not fn.args.args:
            continue
        p = fn.args.args[0].arg
        # ---- S14
        for c in ast.walk(fn):
            if isinstance(c, ast.Call) and getattr(c.func, "id", "") == "isinstance" and len(c.args) == 2 and isinstance(c.args[0], ast.Name) and c.args[0].id == p:
                t = c.args[1]
                names = [ast.unparse(e) for e in (t.elts if isinstance(t, ast.Tuple) else [t])]
                if any(nm in ("int", "float") for nm in names) and not any("Number" in nm or "number" in nm or "integer" in nm or "floating" in nm for nm in names):
                    n14 += 1
                    # only a *scalar gate* (the branch accepts a scalar value); type lists that also admit sequences are format switches
                    if not any(nm in ("list", "tuple", "np.ndarray", "ndarray", "str") for nm in names):
                        res.ob(f"S14:{q}:{norm(c)}", False)
                        res.add(Finding("S14", m.rel, q, c, f"scalar gate on {names}: NumPy scalars (np.int64, np.float32, elements of np.arange) are real numbers "
                                        "but neither int nor float, so valid scalar input is rejected", c.lineno))
                elif any("Number" in nm for nm in names):
                    n14 += 1
                    res.ob(f"S14:{q}:{norm(c)}", True, None, nontrivial=False)
        # ---- S15: numpy conversions of the raw parameter outside a translating try
        rebound_at = min([s_.lineno for s_ in ast.walk(fn) if isinstance(s_, ast.Assign) and any(isinstance(t, ast.Name) and t.id == p for t in s_.targets)] or [10 ** 9])
        protected = set()
        for t in ast.walk(fn):
            if isinstance(t, ast.Try) and any(h.type is None or "Exception" in ast.unparse(h.type) or "Error" in ast.unparse(h.type) for h in t.handlers):
                for b in t.body:
                    for x in ast.walk(b):
                        protected.add(id(x))
        for c in ast.walk(fn):
            if isinstance(c, ast.Call) and isinstance(c.func, ast.Attribute) and ast.unparse(c.func.value) == "np" and c.func.attr in (
                    "ndim", "shape", "size", "array", "asarray", "asanyarray", "atleast_1d", "atleast_2d", "squeeze", "ravel") \
                    and c.args and isinstance(c.args[0], ast.Name) and c.args[0].id == p and c.lineno <= rebound_at:
                n15 += 1
                ok = id(c) in protected
                res.ob(f"S15:{q}:{norm(c)}", ok, {"rule": "S15", "validator": q, "conversion": norm(c), "inside_translating_try": ok})
                if not ok:
                    res.add(Finding("S15", m.rel, q, c, f"NumPy is applied to the raw user value `{p}` outside a try that translates failures: a ragged nesting "
                                    "([[1,2,3],[4,5]]) raises NumPy's own ValueError instead of the library's input error", c.lineno))
        # ---- S16
        for c in ast.walk(fn):
            if isinstance(c, ast.Compare) and len(c.ops) == 1 and isinstance(c.ops[0], (ast.Lt, ast.LtE, ast.Gt, ast.GtE)) and \
                    isinstance(c.comparators[0], ast.Constant) and c.comparators[0].value == 0:
                L = c.left
                if isinstance(L, ast.Call) and getattr(L.func, "attr", "") in ("prod", "sum", "mean", "cumprod", "cumsum", "linalg.det", "det", "dot") \
                        and any(isinstance(x, ast.Name) and x.id == p for x in ast.walk(L)):
                    n16 += 1
                    res.ob(f"S16:{q}:{norm(c)}", False)
                    res.add(Finding("S16", m.rel, q, c, f"the sign constraint is tested on an aggregate of the entries ({norm(L)}): an even number of negative entries "
                                    "(or a negative and a large positive one in a sum) passes", c.lineno))
                elif any(isinstance(x, ast.Name) and x.id == p for x in ast.walk(L)):
                    n16 += 1
                    res.ob(f"S16:{q}:{norm(c)}", True, None, nontrivial=False)
    res.require(n14 >= 4, f"S14: only {n14} scalar type gates found in input_checks")
    res.require(n16 >= 2, f"S16: only {n16} sign tests found in input_checks")
    res.analysed.update({"S14_gates": n14, "S15_raw_conversions": n15, "S16_sign_tests": n16})


def s17(repo, res):
    """S17 "no accepted object later fails inside a field computation with an internal error": the guards for not-yet-set attributes
    (check_dimensions / check_excitations) are given the *flattened* source list - the second value returned by format_src_inputs -
    so that sources inside (nested) Collections are covered, not only bare ones"""
    fn = repo.func("magpylib._src.fields.field_wrap_BH", "getBH_level2")
    flat = None
    for a_ in ast.walk(fn):
        if isinstance(a_, ast.Assign) and isinstance(a_.value, ast.Call) and call_name(a_.value) == "format_src_inputs":
            t = a_.targets[0]
            if isinstance(t, ast.Tuple) and len(t.elts) == 2 and isinstance(t.elts[1], ast.Name):
                flat = t.elts[1].id
    res.require(flat is not None, "anchor vanished: `sources, src_list = format_src_inputs(sources)` in getBH_level2")
    n = 0
    for c in ast.walk(fn):
        if isinstance(c, ast.Call) and call_name(c) in ("check_dimensions", "check_excitations"):
            n += 1
            ok = bool(c.args) and isinstance(c.args[0], ast.Name) and c.args[0].id == flat
            res.ob(f"S17:{norm(c)}", ok, {"rule": "S17", "guard": norm(c), "flattened_list": flat})
            if not ok:
                res.add(Finding("S17", "magpylib/_src/fields/field_wrap_BH.py", "getBH_level2", c, f"the not-yet-set guard is given `{norm(c.args[0]) if c.args else ''}`, not the "
                                f"flattened list `{flat}`: a source with a None dimension/excitation inside a Collection passes and the computation dies with an internal "
                                "AttributeError instead of the library's missing-input error", c.lineno))
    res.require(n >= 2, "anchor vanished: check_dimensions / check_excitations calls in getBH_level2")


def s18(repo, res):
    """S18 pose paths have rank 2 whatever the rank of the accepted input: the orientation validator's constructor/setter format is
    `reshape(<quaternions>, (-1, 4))` (a Rotation may be built from arrays of any rank; `atleast_2d` only lifts rank 1), and the position
    validators are configured with reshape=(-1, 3)"""
    from repo import ret_value
    fn = repo.func(IC, "check_format_input_orientation")
    rets = [ret_value(fn, r) for r in ast.walk(fn) if isinstance(r, ast.Return) and r.value is not None]
    arr_rets = [v for v in rets if not isinstance(v, ast.Tuple)]
    res.require(arr_rets, "anchor vanished: array-format return of check_format_input_orientation")
    for v in arr_rets:
        ok = isinstance(v, ast.Call) and call_name(v) == "reshape" and any(
            isinstance(a, ast.Tuple) and len(a.elts) == 2 and ast.unparse(a.elts[0]) == "-1" and ast.unparse(a.elts[1]) == "4" for a in list(v.args) + [k.value for k in v.keywords])
        res.ob(f"S18:{norm(v)}", ok, {"rule": "S18", "returned": norm(v)})
        if not ok:
            res.add(Finding("S18", repo.mod(IC).rel, "check_format_input_orientation", v, "the quaternion array returned for constructor and setter is not forced to shape (-1, 4): "
                            "a Rotation built from a rank-3 array is accepted and stored with a wrong path length, and a later field computation fails internally", v.lineno))
    n = 0
    for m, q, f2, cl in repo.all_functions():
        for c in ast.walk(f2):
            if isinstance(c, ast.Call) and call_name(c) == "check_format_input_vector" and lit(kw(c, "sig_name")) == "position":
                n += 1
                rs = kw(c, "reshape")
                ok = rs is not None and ast.unparse(rs).replace(" ", "") == "(-1,3)"
                res.ob(f"S18:{q}:position reshape", ok, {"rule": "S18", "site": q, "reshape": ast.unparse(rs) if rs is not None else None})
                if not ok:
                    res.add(Finding("S18", m.rel, q, c, "the position validator is not configured with reshape=(-1, 3): a single position is stored with rank 1", c.lineno))
    res.require(n >= 2, "S18: position validator call sites vanished")


def nonempty_gates(repo, res, rule):
    """pose paths have at least one entry: the two gates through which a position path and an orientation path enter an object
    (`check_format_input_vector`, whose path format serves position only, and `check_format_input_orientation`) test the input for emptiness
    (`X.size` / `len(X)` / `X.shape[0]` compared with 0 or 1, or used as a truth value) - an empty array has an admissible rank and last
    axis and would be stored as a path of length 0, on which the next field computation fails with an internal error"""
    m = repo.mod(IC)

    def emptiness_tests(fn):
        out = []

        def measure(e):
            if isinstance(e, ast.Attribute) and e.attr == "size":
                return True
            if isinstance(e, ast.Call) and ast.unparse(e.func) in ("len", "np.size") and len(e.args) == 1:
                return True
            return isinstance(e, ast.Subscript) and isinstance(e.value, ast.Attribute) and e.value.attr == "shape" and isinstance(e.slice, ast.Constant) and e.slice.value == 0
        for x in ast.walk(fn):
            if isinstance(x, ast.Compare) and len(x.ops) == 1:
                a, b = x.left, x.comparators[0]
                for u, v in ((a, b), (b, a)):
                    if measure(u) and isinstance(v, ast.Constant) and v.value in (0, 1) and not isinstance(v.value, bool):
                        out.append(x)
                if isinstance(x.ops[0], ast.In) and isinstance(a, ast.Constant) and a.value == 0 and isinstance(b, ast.Attribute) and b.attr == "shape":
                    out.append(x)
            if isinstance(x, ast.UnaryOp) and isinstance(x.op, ast.Not) and measure(x.operand):
                out.append(x)
            if isinstance(x, (ast.If, ast.IfExp, ast.While, ast.Assert)) and measure(x.test):
                out.append(x.test)
            if isinstance(x, ast.BoolOp):
                out += [v for v in x.values if measure(v)]
        return out
    for gate in ("check_format_input_vector", "check_format_input_orientation"):
        fn = m.funcs.get(gate)
        res.require(fn is not None, f"anchor vanished: input_checks.{gate}")
        # the test may live in a helper the gate calls (one level)
        tests = emptiness_tests(fn)
        for c in ast.walk(fn):
            if isinstance(c, ast.Call) and isinstance(c.func, ast.Name) and c.func.id in m.funcs and c.func.id != gate:
                tests += emptiness_tests(m.funcs[c.func.id])
        res.ob(f"{rule}:{gate}", bool(tests), {"rule": rule, "gate": gate, "emptiness_tests": [norm(t) for t in tests][:4]})
        if not tests:
            res.add(Finding(rule, m.rel, gate, fn, "no test for an empty input: an array of shape (0, 3) / an empty Rotation passes (admissible rank and last axis) and "
                            "becomes a pose path of length 0", fn.lineno))


def s20_s22(repo, res):
    """S20 rank before size: in the shape validator `len(inp)` / `inp.shape[..]` are only evaluated where the rank test `inp.ndim in dims` has
        succeeded (nested under it, to its right in an `and`, or after `if <rank test fails>: raise`); evaluated unconditionally, a 0-d array
        leaves the validator as a foreign TypeError / IndexError instead of the library's bad-input error.
    S21 same-named scalar attributes agree: setters of one attribute name in different classes (`diameter` of Circle and Sphere, `current` of
        Circle and Polyline) hand the same constraint keywords to `check_format_input_scalar` - a sibling that lost `forbid_negative` accepts
        what the other rejects.
    S22 exact guards: validators admit or reject by exact comparison; a tolerance test (`np.isclose` / `np.allclose`, default atol 1e-8) rejects
        or admits valid inputs depending on the unit the numbers are written in."""
    ic = repo.mod("magpylib._src.input_checks")
    fn = ic.funcs.get("check_array_shape")
    res.require(fn is not None, "anchor vanished: check_array_shape")
    p = fn.args.args[0].arg
    parents = {}
    for x in ast.walk(fn):
        for ch in ast.iter_child_nodes(x):
            parents[id(ch)] = x

    def is_rank(e):
        return any(isinstance(x, ast.Attribute) and x.attr == "ndim" for x in ast.walk(e))
    uses = [x for x in ast.walk(fn) if (isinstance(x, ast.Call) and getattr(x.func, "id", "") == "len" and x.args and ast.unparse(x.args[0]) == p)
            or (isinstance(x, ast.Subscript) and isinstance(x.value, ast.Attribute) and x.value.attr == "shape" and ast.unparse(x.value.value) == p)]
    res.require(uses, "anchor vanished: size tests in check_array_shape")
    top_guards = [i for i, st in enumerate(fn.body) if isinstance(st, ast.If) and is_rank(st.test) and st.body and isinstance(st.body[-1], ast.Raise)]
    for u in uses:
        guarded, ch, q = False, u, parents.get(id(u))
        stmt = None
        while q is not None:
            if isinstance(q, ast.If) and ch is not q.test and is_rank(q.test) and any(ch is b for b in q.body):
                guarded = True
            if isinstance(q, ast.BoolOp) and isinstance(q.op, ast.And):
                idx = next(i for i, v in enumerate(q.values) if v is ch)
                if any(is_rank(v) for v in q.values[:idx]):
                    guarded = True
            if isinstance(q, ast.IfExp) and ch is q.body and is_rank(q.test):
                guarded = True
            if isinstance(q, ast.stmt) and q in fn.body:
                stmt = q
            ch, q = q, parents.get(id(q))
        if not guarded and stmt is not None and any(i < fn.body.index(stmt) for i in top_guards):
            guarded = True
        res.ob(f"S20:{norm(u)}", guarded, {"rule": "S20", "size_test": norm(u), "under_rank_test": guarded})
        if not guarded:
            res.add(Finding("S20", ic.rel, "check_array_shape", u, "the size of the input is read without the rank test having succeeded: a 0-d array raises a foreign "
                            "TypeError / IndexError here instead of MagpylibBadUserInput", u.lineno))
    # ---- S21
    by_name = {}
    for cl in repo.cls_by_key.values():
        if not cl.mod.name.startswith("magpylib._src.obj_classes"):
            continue
        for name, sfn in cl.setters.items():
            for c in ast.walk(sfn):
                if isinstance(c, ast.Call) and call_name(c) == "check_format_input_scalar":
                    kws = {k.arg: ast.unparse(k.value) for k in c.keywords if k.arg and k.arg not in ("sig_name", "sig_type")}
                    by_name.setdefault(name, []).append((cl, c, kws))
    n21 = 0
    for name, items in sorted(by_name.items()):
        if len(items) < 2:
            continue
        n21 += 1
        ref = items[0][2]
        for cl, c, kws in items[1:]:
            ok = kws == ref
            res.ob(f"S21:{name}:{cl.name}", ok, {"rule": "S21", "attribute": name, "classes": [i[0].name for i in items], "constraints": [i[2] for i in items]})
            if not ok:
                # report the poorer one
                worse = (cl, c) if len(kws) <= len(ref) else (items[0][0], items[0][1])
                res.add(Finding("S21", worse[0].mod.rel, f"{worse[0].name}.{name} (setter)", worse[1],
                                f"`{name}` is validated with {kws if worse[0] is cl else ref} here but with {ref if worse[0] is cl else kws} in {items[0][0].name if worse[0] is cl else cl.name}: "
                                "the same attribute accepts in one class what it rejects in the other", worse[1].lineno))
    res.require(n21 >= 1, "S21: no scalar attribute shared by two classes found (diameter: Circle/Sphere confirmed by hand)")
    # ---- S22
    n22 = 0
    for fname, f in ic.funcs.items():
        for c in ast.walk(f):
            if isinstance(c, ast.Call) and getattr(c.func, "attr", getattr(c.func, "id", "")) in ("isclose", "allclose"):
                n22 += 1
                res.ob(f"S22:{fname}:{norm(c)}", False, {"rule": "S22", "validator": fname, "test": norm(c)})
                res.add(Finding("S22", ic.rel, fname, c, "an input guard decided with a tolerance (default atol=1e-8 is an absolute number): valid inputs whose numbers are small "
                                "in the chosen unit are rejected (or invalid ones admitted)", c.lineno))
    res.ob("S22:validators compare exactly", n22 == 0, {"rule": "S22", "tolerance_tests_in_input_checks": n22})


def run(repo, res, tier):
    res.rules = ["S23 pose-path gates reject empty input", "S20 rank test before size tests", "S21 same-named scalar attributes agree", "S22 exact input guards", "S1 validate-before-store", "S2 independent copy", "S3 documented shape vs configuration", "S4 constraints consulted on accepting paths",
                 "S5 None-flow", "S6 constructor = setter", "S8 relational constraints", "S9 rank/type gates",
                 "S10 a membership-validated setter stores the value it tested",
                 "S11 validated value stored verbatim", "S12 total exception translation", "S13 field_func probe adequacy", "S14 scalar gates admit every real number type",
                 "S15 raw user values reach NumPy only inside a translating try", "S16 sign constraints tested elementwise", "S17 not-yet-set guards see the flattened source list", "S18 pose paths forced to rank 2"]
    s1_s6(repo, res)
    s3(repo, res)
    s3b(repo, res)
    s8(repo, res)
    s9(repo, res)
    s4(repo, res)
    none_flow(repo, res)
    s11(repo, res)
    s12(repo, res)
    s13(repo, res)
    s14_s16(repo, res)
    s17(repo, res)
    s18(repo, res)
    s20_s22(repo, res)
    nonempty_gates(repo, res, "S23")
    import rules_domain
    n10 = rules_domain.checked_is_stored(repo, res, "S10")
    res.require(n10 >= 12, f"S10: only {n10} membership-validated setters found (16 confirmed by hand)")
    res.analysed["S10_setters"] = n10
    extra = {}
    try:
        import origin_rules
        extra = origin_rules.c17_s2(repo, res) or {}
    except ImportError:
        res.notes.append("S2 (ORIGIN) not available yet")
    return extra


MANIFEST = {
    "category": "other",
    "text": "Static decision of the validation discipline behind C17 for every property setter, constructor and validator call site: values are "
            "validated before the first store (so a rejected assignment leaves the object unchanged), the documented shape agrees with the validator "
            "configuration, each passed constraint is consulted on every accepting path of the validator (path enumeration with the call site's "
            "literal arguments), None results never reach arithmetic, constructors go through the setters, and stored arrays are fresh copies. "
            "Value-level read-back equality is not decided. Also decided: documented relational constraints are enforced, every validator has a type gate, validators return fresh arrays. Round 3: membership-validated setters store the value they tested (S10), validated values are stored verbatim in the property's own attribute (S11), the translation of conversion failures into the input error is total (S12), the field_func probe has at least two rows and its shape is what the output is compared with (S13); None-flow understands conditional expressions and short-circuit guards and looks at if/for heads. Rounds 4-5: S14 scalar gates on numbers.Number, S15 raw values reach NumPy only inside a translating try, S16 elementwise sign tests, S17 guards see the flattened source list, S18 pose paths forced to rank 2, S19 no attribute stored as a view of another. Rounds 6-7: same-named scalar attributes hand the same constraints to the validator (S21), rank before size (S20), exact guards (S22); None-flow uses the effective allow_None of every validator call, defaults included (S5).",
    "design_ref": "DESIGN.md §3 C17",
    "note": "Trusted: python ast; validators are recognised by name (check_*/validate_*) in magpylib._src.input_checks; triaged lazy style validation.",
    "technique": "static analysis: taint-style dataflow on a structured CFG, path enumeration with partial evaluation, table cross-check, alias analysis",
}
