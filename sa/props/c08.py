"""C08 - field computation never changes objects or inputs, even when it fails.

Decided clauses (structural, necessary conditions of the property):
  T1  every temporary overwrite of an attribute of a pre-existing object in a function reachable from the field
      entry points is restored on *every* exit (return, raise, exceptional edge of any call in between)
  T2  who-may-write: no other write to object state is reachable from getBH_level2 / getBH_dict_level2
  T3  caller arrays: no value owned by the caller (arguments of the entry points, attributes of sources and
      sensors) reaches an in-place sink without crossing a copy-maker   (ORIGIN analysis, see origin_rules.py)
Not decided: "calling again gives the identical result" (numerical).
"""
from __future__ import annotations

import ast

from callgraph import CallGraph
from common import Finding, norm
import rules_t1
from rules_writes import collect_writes

EXPLANATION = ("T1 swap-restore on all exits (structured flow with exceptional edges) for every temporary overwrite "
               "reachable from getBH_level2/getBH_dict_level2; T2 who-may-write over the call graph; "
               "T3 caller-owned arrays never reach an in-place sink (alias/escape analysis). "
               "Decides exception-safety and non-mutation of the field computation path, not numerical repeatability.")

ROOTS = ["magpylib._src.fields.field_wrap_BH:getBH_level2", "magpylib._src.fields.field_wrap_BH:getBH_dict_level2"]

# triaged stop nodes of the reachability (function id -> one line of reason)
LAZY_INIT = {
    "magpylib._src.obj_classes.class_BaseGeo:BaseGeo.style[get]":
        "creates _style from _style_kwargs on first read (dataframe branch reads src.style.label); value-preserving lazy initialisation",
}
# constructor calls allowed on the field path: (function, class) -> reason
CTOR_OK = {
    ("check_format_input_observers", "Sensor"): (("pixel",), "bare position arrays are wrapped in a fresh Sensor(pixel=array); only `pixel` is passed, so nothing can be re-parented"),
}


def is_record_class(repo, cname):
    """a class whose construction cannot touch the objects handed to it: no base class from the package (or only NamedTuple / object), and
    either no `__init__` (dataclass, NamedTuple) or an `__init__` that only stores names / attribute reads / literals in `self.<attr>`"""
    c = repo.classes.get(cname)
    if c is None:
        return False
    if any(b in repo.classes for b in c.base_names) or any(b not in ("NamedTuple", "object", "typing.NamedTuple") for b in c.base_names):
        return False
    for name, fn in c.methods.items():
        if name in ("__new__", "__post_init__", "__init_subclass__", "__setattr__"):
            return False
    init = c.methods.get("__init__")
    if init is None:
        return True
    for s_ in init.body:
        if isinstance(s_, ast.Expr) and isinstance(s_.value, ast.Constant):
            continue
        if isinstance(s_, (ast.Assign, ast.AnnAssign)):
            tg = s_.targets if isinstance(s_, ast.Assign) else [s_.target]
            val = s_.value
            if all(isinstance(t, ast.Attribute) and isinstance(t.value, ast.Name) and t.value.id == "self" for t in tg) and val is not None \
                    and not any(isinstance(x, (ast.Call, ast.Await, ast.Yield)) for x in ast.walk(val)):
                continue
        return False
    return True


def t1_t2(repo, res, roots, pid_rule_prefix="", lazy=LAZY_INIT, ctor_ok=CTOR_OK, extra_ok=None):
    g = CallGraph(repo)
    for r in roots:
        res.require(r in g.nodes, f"anchor function vanished: {r}")
    res.require(not g.array_layer_violations, f"numerical layer imports classes: {g.array_layer_violations}")
    stop = {f for f in g.nodes if f.endswith(".__init__")} | set(lazy)
    g.edges = g.edges_for_preexisting()      # setters invoked on objects created in the calling function act on those new objects
    seen, parent = g.reachable(roots, stop=stop)
    res.analysed["reachable_functions"] = len(seen)
    res.analysed["call_edges"] = sum(len(v) for v in g.edges.values())
    unresolved = sorted({u for s in seen for u in g.unresolved[s]})
    res.analysed["unresolved_callees"] = unresolved
    classes = set(repo.classes)
    n_writes = 0
    helpers = rules_t1.repo_helpers(repo)
    # writes inside a helper are accounted for by a caller whose T1 analysis treats the call as the overwrite/restore event
    accounted = {}
    for fid in sorted(seen):
        t1 = rules_t1.analyse(g.nodes[fid].node, helpers)
        if t1 and not t1["bad"] and t1.get("helper_calls"):
            for c in ast.walk(g.nodes[fid].node):
                if isinstance(c, ast.Call) and isinstance(c.func, ast.Name) and c.func.id in helpers:
                    accounted.setdefault(c.func.id, set()).update(t1["attrs"])
    for fid in sorted(seen):
        n = g.nodes[fid]
        fn = n.node
        fname = fid.split(":")[1]
        t1 = rules_t1.analyse(fn, helpers)
        paired = set(accounted.get(fn.name, ()))
        if t1:
            res.evaluations += t1["exits"]
            if t1["bad"]:
                exits = [f"{k}@{norm(node)[:70]}" for k, attrs, node in t1["bad"]]
                res.add(Finding(pid_rule_prefix + "T1", n.mod.rel, fname,
                                f"temporary overwrite of {','.join(t1['attrs'])}",
                                f"not restored on {len(exits)} exit(s): " + " ; ".join(exits[:6]) + (" ..." if len(exits) > 6 else ""),
                                getattr(t1["bad"][0][2], "lineno", None), path=g.path_to(parent, fid)))
            for tmp, rst in t1.get("inexact", []):
                res.ob(f"T1c:{fname}:{norm(rst)}", False)
                res.add(Finding(pid_rule_prefix + "T1c", n.mod.rel, fname, rst, f"the restore slices the temporary value built by `{norm(tmp.value)[:60]}`, which does not "
                                "keep the original entries bit for bit (a normalising constructor such as Rotation.from_quat): the object comes back changed "
                                "in the last bits", rst.lineno))
            paired |= set(t1["attrs"])
            res.ob(f"T1:{fname}:{','.join(t1['attrs'])}", not t1["bad"],
                   {"rule": "T1", "function": fname, "attrs": t1["attrs"], "exits_examined": t1["exits"],
                    "unrestored_exits": len(t1["bad"])})
        for w in collect_writes(fn, classes):
            n_writes += 1
            if isinstance(w.stmt, ast.Assign) and any(isinstance(h, ast.ExceptHandler) and h.name == w.recv
                                                      for h in ast.walk(fn)):
                continue  # attribute of the caught exception object
            ok = w.kind == "store" and w.attr in paired
            if extra_ok and extra_ok(fid, w):
                ok = True
            res.ob(f"T2:{fname}:{w.kind}:{w.recv}.{w.attr}", ok,
                   {"rule": "T2", "function": fname, "write": f"{w.kind} {w.recv}.{w.attr}", "paired_by_T1": ok})
            if not ok:
                res.add(Finding(pid_rule_prefix + "T2", n.mod.rel, fname, f"{w.kind} {w.recv}.{w.attr}: {norm(w.stmt)}",
                                "write to the state of a pre-existing object on the field computation path",
                                getattr(w.stmt, "lineno", None), path=g.path_to(parent, fid)))
        for cname, node in g.ctor_sites.get(fid, []):
            c = repo.classes.get(cname)
            if c is None or any(b.name in ("Exception", "Warning") or b.name.startswith("Magpylib") for b in repo.mro(cname)) \
                    or any(bn in ("Exception", "Warning", "ValueError", "TypeError") for bn in c.base_names):
                continue
            if is_record_class(repo, cname):
                res.ob(f"T2:ctor:{fname}:{cname}", True, {"rule": "T2-ctor", "function": fname, "constructs": cname, "accepted_as": "plain record class (constructor only stores its arguments)"})
                continue
            short = fname.split(".")[-1]
            kws = {k.arg for k in node.keywords}
            ok = (short, cname) in ctor_ok and not node.args and kws <= set(ctor_ok[(short, cname)][0])
            res.ob(f"T2:ctor:{fname}:{cname}", ok, {"rule": "T2-ctor", "function": fname, "constructs": cname})
            if not ok:
                res.add(Finding(pid_rule_prefix + "T2", n.mod.rel, fname, f"constructor call {norm(node)}",
                                "unreviewed object construction on the field path (a constructor may re-parent or "
                                "mutate the objects passed to it)", node.lineno))
    res.analysed["state_writes_seen"] = n_writes
    res.assumptions.append("call graph: name-based class-hierarchy analysis; method names shared with builtin containers/ndarray "
                           "are linked to repo classes only for receivers that show a repo-only attribute in the same function")
    res.assumptions.append("numerical layer (fields/field_BH_*, special_*) handles arrays only (checked: imports no class)")
    for k, v in lazy.items():
        res.assumptions.append(f"triaged lazy initialisation (not traversed): {k} - {v}")
    return g, seen


def t6(repo, res, g, seen):
    """T6 no module-level (session-wide) mutable state is written by a field computation: a store / mutator call on a name that is bound
    at module level (a dict or list used as a hand-made cache or registry) in any function reachable from the entry points.  Such state
    outlives the call, is shared by all objects and makes a later, identical computation depend on what was computed before.
    (`functools.lru_cache` keyed by the function object is not a write of this kind.)"""
    MUT = {"append", "extend", "update", "pop", "remove", "clear", "insert", "setdefault", "popitem", "add", "discard"}
    n = 0
    for fid in sorted(seen):
        node = g.nodes[fid]
        fn_, mod = node.node, node.mod
        local = {a.arg for a in fn_.args.posonlyargs + fn_.args.args + fn_.args.kwonlyargs}
        for x in ast.walk(fn_):
            if isinstance(x, (ast.Assign, ast.AugAssign, ast.For, ast.comprehension, ast.With)):
                for t in ast.walk(x.targets[0] if isinstance(x, ast.Assign) else (x.target if hasattr(x, "target") else x)):
                    if isinstance(t, ast.Name) and isinstance(t.ctx, ast.Store):
                        local.add(t.id)
        glob = {nm for nm, v in mod.assigns.items() if isinstance(v, (ast.Dict, ast.List, ast.Set)) or (isinstance(v, ast.Call) and getattr(v.func, "id", "") in ("dict", "list", "set", "defaultdict", "OrderedDict"))}
        glob -= local
        for x in ast.walk(fn_):
            hit = None
            if isinstance(x, (ast.Assign, ast.AugAssign)):
                for t in (x.targets if isinstance(x, ast.Assign) else [x.target]):
                    if isinstance(t, ast.Subscript) and isinstance(t.value, ast.Name) and t.value.id in glob:
                        hit = t.value.id
            if isinstance(x, ast.Call) and isinstance(x.func, ast.Attribute) and x.func.attr in MUT and isinstance(x.func.value, ast.Name) and x.func.value.id in glob:
                hit = x.func.value.id
            if hit:
                n += 1
                res.add(Finding("T6", mod.rel, fid.split(":")[1], x, f"the module-level container `{hit}` is written on the field-computation path: session-wide state that "
                                "survives the call (also a failing one) and changes what later computations do", x.lineno))
    res.ob("T6:no module-level mutable state written on the field path", n == 0, {"rule": "T6", "functions_scanned": len(seen), "instances": n}, nontrivial=False)


def run(repo, res, tier):
    res.rules = ["T1 swap-restore on all exits", "T2 who-may-write on the field path", "T3 caller arrays and shared tables reach no in-place sink", "T4 method forms leave the receiver unchanged", "T5 no read-only view left in an object", "T6 no module-level mutable state written"]
    g, seen = t1_t2(repo, res, ROOTS)
    t6(repo, res, g, seen)
    # T1 instances must include the in-place tiling of getBH_level2 unless tiling no longer writes objects at all
    extra = {}
    try:
        import origin_rules
        extra = origin_rules.c08_t3(repo, res) or {}
        origin_rules.c08_t4(repo, res)
        import rules_roview
        rules_roview.run(repo, res, 'T5')
    except ImportError:
        res.notes.append("T3 (ORIGIN) not available")
    return extra


MANIFEST = {
    "category": "other",
    "text": "Static decision of the exception-safety and non-mutation clauses: for every function reachable from getBH_level2/getBH_dict_level2 "
            "(call graph over the parsed package) each temporary overwrite of object state is shown restored on every exit including the "
            "exceptional edge of every call (T1), no other write to pre-existing object state is reachable (T2), and no caller-owned array "
            "reaches an in-place sink without a copy (T3). This covers every failure point at once, which sampled failing calls cannot; it "
            "does not decide numerical repeatability. Round 3: `except Exception` does not count as covering all exits (KeyboardInterrupt from a user field function), the J and M branches of every field function are analysed for in-place sinks, and tile_group_property returns a new array on every path. Rounds 4-5: T3 also covers class-level tables, T4 the method forms, T5 read-only views, T6 module-level containers, T1c bit-exact restores.",
    "design_ref": "DESIGN.md §3 C08",
    "note": "Trusted: python ast; name-based call graph (over-approximate, ambiguity rule stated in evidence); NumPy copy/view table; "
            "triaged lazy style initialisation and Sensor(pixel=...) construction.",
    "technique": "static analysis: structured control-flow with exceptional edges (swap-restore typestate), call-graph who-may-write, alias/escape analysis",
}
