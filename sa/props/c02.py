"""C02 - B = mu0*H + J everywhere; J and M report the body's polarization.

Decided clauses (unit bookkeeping; each is a necessary condition of the identities):
  R1  single mu0: no constant expression in the package folds to mu0 or 1/mu0 (within 1e-6 relative) except the one
      binding scipy.constants.mu_0; names MU0/mu_0 resolve to that binding
  R2  BHJM bookkeeping (E2-DIM with `field` bound to each literal): magnets B:X H:X/mu0 J:X M:X/mu0; currents and dipole
      B:X*mu0*L^k H:X*L^k, J and M identically zero; Triangle J/M zero; each literal reaches a `return`
  R3  setter sync typed: BaseMagnet.magnetization / polarization setters cross-assign with a factor of dimension mu0^(+-1)
      that is the exported constant
  R5  mask consistency: in each magnet's field function the region where J/M are kept and the region where +-J enters B/H are
      the same mask definition
  R6  the two excitation attributes are written back to back: no exit (incl. exceptional edges) with only one of them updated
  R4  None-flow: a value returned by a validator called with allow_None=True reaches no arithmetic / norm unguarded
Not decided: that +J/-J is applied under the right mask (same units either way); pointwise identity at surface points.
"""
from __future__ import annotations

import ast
import math

import dim_rules
from common import AnalysisError, Finding, norm
from props import c17

EXPLANATION = ("unit bookkeeping of the four field outputs by dimension typing (44 return obligations), a package-wide constant-folding scan "
               "for hand-typed permeabilities, typed cross-assignment and None-flow in the magnet excitation setters. "
               "Decides that B,H,J,M carry consistent powers of the single exported mu0; does not decide masks or surface points.")

MU0 = 1.25663706212e-06
# triaged constants: (function, repr of folded value) -> reason
BENIGN_CONST = {
    ("current_circle_Hfield", "795774.7154594767"): "1e-6/20 * 795774.7 = 1/(8 pi): a pure number (the DIM run types the result with mu0^0)",
}


def fold(n):
    """numeric value of a constant expression or None"""
    if isinstance(n, ast.Constant) and isinstance(n.value, (int, float)) and not isinstance(n.value, bool):
        return float(n.value)
    if isinstance(n, ast.Attribute) and n.attr == "pi" and isinstance(n.value, ast.Name) and n.value.id in ("np", "numpy", "math"):
        return math.pi
    if isinstance(n, ast.Name) and n.id == "pi":
        return math.pi
    if isinstance(n, ast.UnaryOp) and isinstance(n.op, (ast.USub, ast.UAdd)):
        v = fold(n.operand)
        return None if v is None else (-v if isinstance(n.op, ast.USub) else v)
    if isinstance(n, ast.BinOp):
        a, b = fold(n.left), fold(n.right)
        if a is None or b is None:
            return None
        try:
            if isinstance(n.op, ast.Add):
                return a + b
            if isinstance(n.op, ast.Sub):
                return a - b
            if isinstance(n.op, ast.Mult):
                return a * b
            if isinstance(n.op, ast.Div):
                return a / b
            if isinstance(n.op, ast.Pow):
                return a ** b
        except (ZeroDivisionError, OverflowError, ValueError):
            return None
    return None


def mu_like(v):
    if v is None or v == 0 or isinstance(v, complex):
        return None
    v = abs(v)
    for ref, nm in ((MU0, "mu0"), (1 / MU0, "1/mu0"), (MU0 / (4 * math.pi) * 4 * math.pi, "mu0")):
        if abs(v - ref) <= 1e-6 * ref:
            return nm
    return None


def scan_constants(repo, res):
    n_expr = 0
    for m, qn, fn, cl in repo.all_functions():
        stack = [fn]
        while stack:
            n = stack.pop()
            if isinstance(n, ast.expr):
                v = fold(n)
                if v is not None:
                    n_expr += 1
                    k = mu_like(v)
                    if k:
                        short = qn.split(".")[-1].replace(" (setter)", "")
                        ok = (short, repr(v)) in BENIGN_CONST
                        res.ob(f"R1:{qn}:{norm(n)}", ok, {"rule": "R1", "function": qn, "expression": norm(n), "folds_to": v, "looks_like": k,
                                                         "triaged_benign": ok})
                        if not ok:
                            res.add(Finding("R1", m.rel, qn, n, f"constant folds to {v!r} ~ {k}: a second, hand-typed permeability "
                                            f"(exported mu_0 = {MU0!r})", n.lineno))
                    continue  # do not descend into a folded expression
            stack.extend(ast.iter_child_nodes(n))
    # module level
    for m in repo.mods.values():
        for name, v in m.assigns.items():
            val = fold(v)
            if val is not None and mu_like(val):
                res.ob(f"R1:{m.name}:{name}", False)
                res.add(Finding("R1", m.rel, f"<module>.{name}", v, f"module constant folds to {val!r} ~ {mu_like(val)}", v.lineno))
    # names
    n_names = 0
    for m in repo.mods.values():
        for local, (im, a) in m.imports.items():
            if local in ("MU0", "mu_0", "mu0") or a in ("mu_0",):
                n_names += 1
                ok = im == "scipy.constants" and a == "mu_0"
                # re-export chain inside the package
                if not ok and im in repo.mods:
                    r = repo.resolve_name(m, local)
                    ok = bool(r and r[0] == "ext" and r[1] == "scipy.constants.mu_0")
                res.ob(f"R1:name:{m.name}.{local}", ok, {"rule": "R1", "module": m.name, "name": local, "bound_to": f"{im}.{a}"})
                if not ok:
                    res.add(Finding("R1", m.rel, "<module>", f"{local} imported from {im}.{a}", "permeability name not bound to scipy.constants.mu_0"))
    res.require(n_names >= 5, f"only {n_names} mu0 bindings found (expected the field modules + magpylib/__init__)")
    res.analysed["constant_expressions_folded"] = n_expr
    res.analysed["mu0_name_bindings"] = n_names


def setter_sync(repo, res):
    """R3: interpret the cross-assignment expressions of the BaseMagnet setters with DIM"""
    from absint import ARepo, Interp, Env, Const, Unknown
    from dimdom import D, DimDomain
    import common
    c = repo.cls("BaseMagnet")
    for prop, other, src_dim, want in (("magnetization", "_polarization", D(x=1, m=-1), (0, 1, 0)),
                                        ("polarization", "_magnetization", D(x=1), (0, 1, -1))):
        res.require(prop in c.setters, f"anchor vanished: BaseMagnet.{prop} setter")
        fn = c.setters[prop]
        stores = [n for n in ast.walk(fn) if isinstance(n, ast.Assign) and any(
            isinstance(t, ast.Attribute) and t.attr in (other, other[1:]) for t in n.targets) and not (isinstance(n.value, ast.Constant) and n.value.value is None)]
        res.require(stores, f"BaseMagnet.{prop} setter no longer assigns {other}")
        for st in stores:
            arepo = ARepo(common.REPO)
            dom = DimDomain()
            dom.repo_summaries = {}
            it = Interp(arepo, dom)
            env = Env()
            env.module = arepo.module(c.mod.name)
            # every local / self attribute that stands for the user's validated value has the source dimension
            for n in ast.walk(st.value):
                if isinstance(n, ast.Name) and n.id not in ("np", "MU0", "mu_0"):
                    env.set(n.id, src_dim)

            class SelfV:
                pass
            dom_attr = dom.attr

            def attr(recv, name, node, _d=dom_attr):
                if recv is SELF:
                    return src_dim
                return _d(recv, name, node)
            SELF = Const("<self>")
            env.set("self", SELF)
            dom.attr = attr
            try:
                out = it.expr(st.value, env)
            except Exception as e:  # noqa
                raise AnalysisError(f"R3: cannot type {norm(st)}: {e}")
            ok = isinstance(out, D) and not out.poly and tuple(out.dim) == tuple(want)
            res.ob(f"R3:{prop}->{other}", ok, {"rule": "R3", "setter": prop, "store": norm(st), "typed_as": repr(out), "expected_(L,X,mu0)": want})
            if not ok:
                res.add(Finding("R3", c.mod.rel, f"BaseMagnet.{prop} (setter)", st,
                                f"cross-assignment types as {out!r}, expected exponents {want}: the conversion factor is not the exported mu0", st.lineno))


def mask_consistency(repo, res):
    """R5: inside a magnet's BHJM function the region where J (and M) is kept and the region where +-J enters B (and H) are
    one and the same mask definition.  If they differ at any observer, B = mu0*H + J fails there."""
    import dim_rules
    n = 0
    for name, kind, ldeg, modname, fname, bind in dim_rules.field_entries(repo):
        if kind != "magnet" or "#" in name:
            continue
        m = repo.mod(modname)
        fn = m.funcs[fname]
        if fname == "BHJM_cylinder_segment_internal":
            fn = m.funcs.get("BHJM_cylinder_segment", fn)
        defs = {}
        for s_ in ast.walk(fn):
            if isinstance(s_, ast.Assign) and len(s_.targets) == 1 and isinstance(s_.targets[0], ast.Name):
                defs.setdefault(s_.targets[0].id, []).append(s_.value)

        # names that stand for a selection of rows: boolean masks (by name), integer row numbers computed from a condition
        # (`np.flatnonzero(c)`, `np.nonzero(c)[0]`, ...), selections composed from them (`rows[mask[rows]]`), and whatever indexes the
        # first axis of BHJM in a store
        masklike = {nm for nm in defs if "mask" in nm or nm in ("out", "inside")}
        masklike |= {x.id for x in ast.walk(fn) if isinstance(x, ast.Name) and ("mask" in x.id or x.id in ("out", "inside"))}
        for st in ast.walk(fn):
            tg = st.targets[0] if isinstance(st, ast.Assign) else st.target if isinstance(st, ast.AugAssign) else None
            if isinstance(tg, ast.Subscript):
                b_ = tg
                while isinstance(b_.value, ast.Subscript):
                    b_ = b_.value
                if ast.unparse(b_.value) == "BHJM":
                    first = b_.slice.elts[0] if isinstance(b_.slice, ast.Tuple) and b_.slice.elts else b_.slice
                    if isinstance(first, ast.Name):
                        masklike.add(first.id)
        for _ in range(4):
            for nm, vs in defs.items():
                for v in vs:
                    c_ = v.value if isinstance(v, ast.Subscript) and isinstance(v.slice, ast.Constant) else v
                    if isinstance(c_, ast.Call) and getattr(c_.func, "attr", "") in ("flatnonzero", "nonzero", "where", "argwhere") and len(c_.args) == 1:
                        masklike.add(nm)
                    if isinstance(v, ast.Subscript) and isinstance(v.value, ast.Name) and v.value.id in masklike:
                        masklike.add(nm)

        def base_masks(e, depth=0):
            """mask names an index expression is built from (following &, *, ~ and one level of local definitions)"""
            out = set()
            for x in ast.walk(e):
                if isinstance(x, ast.Name) and x.id in masklike:
                    if depth < 3 and x.id in defs and len(defs[x.id]) == 1 and any(
                            isinstance(y, ast.Name) and y.id in masklike for y in ast.walk(defs[x.id][0])) and \
                            isinstance(defs[x.id][0], (ast.BinOp, ast.UnaryOp)):
                        out |= base_masks(defs[x.id][0], depth + 1)
                    else:
                        out.add(x.id)
            return out
        zero, pm = [], []
        for st in ast.walk(fn):
            if isinstance(st, ast.Assign) and isinstance(st.targets[0], ast.Subscript) and ast.unparse(st.targets[0].value) == "BHJM" and \
                    isinstance(st.value, ast.Constant) and st.value.value in (0, 0.0):
                zero.append(st)
            if isinstance(st, ast.AugAssign) and isinstance(st.op, (ast.Add, ast.Sub)) and isinstance(st.target, ast.Subscript) and \
                    "pol" in ast.unparse(st.value):
                b = st.target.value
                while isinstance(b, ast.Subscript):
                    b = b.value
                if ast.unparse(b) == "BHJM":
                    pm.append(st)
        if not zero or not pm:
            continue   # trimesh: J/M are built by adding the polarization under the same mask (single site)
        n += 1
        inside = set()
        for st in pm:
            sl = st.target.slice
            inside |= base_masks(sl.elts[0] if isinstance(sl, ast.Tuple) else sl)
        zmasks = set()
        for st in zero:
            zmasks |= base_masks(st.targets[0].slice)
        # reaching definitions of the mask names at the zeroing sites and at the +-J sites must coincide
        from flow import BaseClient, function_exits
        at = {}
        at_all = {}

        class RD(BaseClient):
            def call_may_raise(self, call):
                return False

            def transfer(self, st, S):
                out = set()
                for w in S:
                    w = set(w)
                    at_all.setdefault(getattr(st, "lineno", 0), set()).update(w)
                    if any(st is z for z in zero) or any(st is p for p in pm) or isinstance(st, ast.Assign):
                        at.setdefault(id(st), set()).update(f for f in w)
                    if isinstance(st, ast.Assign):
                        for t in st.targets:
                            for x in ast.walk(t):
                                if isinstance(x, ast.Name) and isinstance(x.ctx, ast.Store):
                                    w = {f for f in w if f[0] != x.id}
                                    w.add((x.id, st.lineno))
                    out.add(frozenset(w))
                return frozenset(out)
        function_exits(fn, RD(), frozenset({frozenset()}))

        def reaching(stmts, names):
            r = set()
            for st in stmts:
                r |= {f for f in at.get(id(st), ()) if f[0] in names}
            return r
        defstmt = {}
        for s_ in ast.walk(fn):
            if isinstance(s_, ast.Assign) and len(s_.targets) == 1 and isinstance(s_.targets[0], ast.Name):
                defstmt[(s_.targets[0].id, s_.lineno)] = s_

        def is_mask(nm):
            return nm in masklike

        def leaves(fact, depth=0):
            """primitive (geometry) conditions a reaching mask definition is built from, following reaching definitions"""
            st_ = defstmt.get(fact)
            if st_ is None or depth > 8:
                return {fact[0]}
            names = [x.id for x in ast.walk(st_.value) if isinstance(x, ast.Name) and is_mask(x.id)]
            if not names:
                t = norm(st_.value)
                others = {x.id for x in ast.walk(st_.value) if isinstance(x, ast.Name)} - {"np"}
                # a condition on the excitation only (pol == 0 ...) does not delimit a region of space: J is zero there anyway
                if others and all(o.startswith("pol") or o in ("polarization", "magnetization") for o in others):
                    return set()
                return {t}
            out = set()
            for nm in names:
                for f in at.get(id(st_), ()):
                    if f[0] == nm:
                        out |= leaves(f, depth + 1)
            return out

        def region_at(stmts, names):
            r = set()
            for st_ in stmts:
                for f in at.get(id(st_), ()):
                    if f[0] in names:
                        r |= leaves(f)
            return r
        ez = region_at(zero, zmasks)
        ep = region_at(pm, inside)
        # where B/H are forced to zero after +-J was applied (surface / edge special cases) J does not enter B/H either
        first_pm = min(p_.lineno for p_ in pm)
        kills = [k_ for k_ in ast.walk(fn) if isinstance(k_, ast.AugAssign) and isinstance(k_.op, ast.Mult) and isinstance(k_.value, ast.Constant)
                 and k_.value.value == 0 and isinstance(k_.target, ast.Subscript) and ast.unparse(k_.target.value) == "BHJM" and k_.lineno > first_pm]

        def _zeroing(v):
            return (isinstance(v, ast.Constant) and v.value in (0, 0.0) and not isinstance(v.value, bool)) or (
                isinstance(v, ast.BinOp) and isinstance(v.op, ast.Mult) and any(isinstance(o, ast.Constant) and o.value == 0 for o in (v.left, v.right)))
        # the same forcing to zero written out: `BHJM[m] = BHJM[m] * 0`, `BHJM[m] = 0`
        kills += [k_ for k_ in ast.walk(fn) if isinstance(k_, ast.Assign) and len(k_.targets) == 1 and isinstance(k_.targets[0], ast.Subscript)
                  and ast.unparse(k_.targets[0].value) == "BHJM" and _zeroing(k_.value) and k_.lineno > first_pm and not any(k_ is z_ for z_ in zero)]
        for k_ in kills:
            for nm in base_masks((k_.target if isinstance(k_, ast.AugAssign) else k_.targets[0]).slice):
                for f in at_all.get(k_.lineno, ()):
                    if f[0] == nm:
                        ep |= leaves(f)
        per_store = [region_at([z_], base_masks(z_.targets[0].slice)) for z_ in zero]
        ok = bool(zmasks) and all(r_ == ep for r_ in per_store)
        if not ok:
            ez = next((r_ for r_ in per_store if r_ != ep), ez)
        res.ob(f"R5:{fname}", ok, {"rule": "R5", "function": fname, "J/M kept where": sorted(zmasks), "+-J applied where": sorted(inside),
                                   "region_where_J_is_kept": sorted(ez), "region_where_J_enters_B_H": sorted(ep)})
        if not ok:
            res.add(Finding("R5", m.rel, fname, zero[0], f"J/M are kept where {sorted(ez)} but +-J enters B/H where {sorted(ep)}: the two regions must be the same "
                            "(else B != mu0*H + J where they differ)", zero[0].lineno))
    res.require(n >= 4, f"R5: only {n} magnet field functions with J tails found")


def paired_excitation_stores(repo, res):
    """R6: polarization and magnetization are one quantity in two units; a setter that has written one of the two attributes has the
    other one pending until it is written too - no exit of any kind (exceptional edge of any call, e.g. a warning escalated to an
    error) while pending."""
    from flow import BaseClient, function_exits
    c = repo.cls("BaseMagnet")
    pair = ("_magnetization", "_polarization")
    for prop in ("magnetization", "polarization"):
        fn = c.setters.get(prop)
        res.require(fn is not None, f"anchor vanished: BaseMagnet.{prop} setter")

        class PC(BaseClient):
            def call_may_raise(self, call):
                return True

            def transfer(self, st, S):
                out = set()
                for w in S:
                    w = set(w)
                    if isinstance(st, ast.Assign):
                        for t in st.targets:
                            if isinstance(t, ast.Attribute) and isinstance(t.value, ast.Name) and t.value.id == "self" and t.attr in pair:
                                other = pair[1 - pair.index(t.attr)]
                                w.add(("WROTE", t.attr))
                                if ("PENDING", t.attr) in w:
                                    w.discard(("PENDING", t.attr))
                                else:
                                    w.add(("PENDING", other))
                    out.add(frozenset(w))
                return frozenset(out)
        exits, nst = function_exits(fn, PC(), frozenset({frozenset()}))
        res.evaluations += len(exits)
        bad = []
        for k, worlds, node in exits:
            for w in worlds:
                if any(f[0] == "PENDING" for f in w):
                    bad.append((k, node))
        # R7: every normal exit of the setter has (re)written both attributes - a setter that returns early keeps whatever the caller
        # did to the arrays handed out by the getters (e.g. `m.polarization *= 2` edits the stored array in place first)
        skipped = []
        for k, worlds, node in exits:
            if k in ("return", "fallthrough"):
                for w in worlds:
                    if {f[1] for f in w if f[0] == "WROTE"} != set(pair):
                        skipped.append(node)
        sk = {norm(n) if not isinstance(n, ast.FunctionDef) else "end of function" for n in skipped}
        res.ob(f"R7:BaseMagnet.{prop}:every normal exit writes both attributes", not sk, {"rule": "R7", "setter": prop, "exits_without_both_writes": sorted(sk)})
        if sk:
            res.add(Finding("R7", c.mod.rel, f"BaseMagnet.{prop} (setter)", f"normal exit without writing both attributes at: {sorted(sk)[0]}",
                            "polarization and magnetization can get out of sync when the stored array was edited in place before the assignment "
                            "(augmented assignment through the getter)", getattr(skipped[0], "lineno", None)))
        uniq = {(k, norm(n) if not isinstance(n, ast.FunctionDef) else "end") for k, n in bad}
        res.ob(f"R6:BaseMagnet.{prop}", not uniq, {"rule": "R6", "setter": prop, "exits_examined": len(exits), "exits_with_one_attribute_written": sorted(x[1] for x in uniq)})
        if uniq:
            k, n = bad[0]
            res.add(Finding("R6", c.mod.rel, f"BaseMagnet.{prop} (setter)", f"exit ({k}) between the two paired stores at: {sorted(x[1] for x in uniq)[0]}",
                            "the setter can be left with polarization and magnetization out of sync (J != mu0*M), e.g. when a warning is escalated to an error",
                            getattr(n, "lineno", None)))


_OPS = {ast.Lt: (True, False, False), ast.LtE: (True, True, False), ast.Gt: (False, False, True), ast.GtE: (False, True, True),
        ast.NotEq: (True, False, True), ast.Eq: (False, True, False)}
_FLIP = {ast.Lt: ast.Gt, ast.LtE: ast.GtE, ast.Gt: ast.Lt, ast.GtE: ast.LtE, ast.NotEq: ast.NotEq, ast.Eq: ast.Eq}


def full_ring_threshold(repo, res):
    """R8: every place that compares the angular span `phi2 - phi1` with 360 splits the *admitted* spans the same way.
    The values are touched only through comparisons, so each predicate is a truth table over the three orderings (<, =, >) of the
    span against 360.  The validator's rejecting predicate removes orderings; on the remaining ones the field code (segment formula
    vs. full-cylinder fallback) and the display code (end caps or none) must induce the same partition.  A 360 degree body sent
    through the segment formula has its two end planes coincide inside the material, where all four fields are returned as 0."""
    sites = []
    for m, q, fn_, cl in repo.all_functions():
        for c in ast.walk(fn_):
            if not (isinstance(c, ast.Compare) and len(c.ops) == 1 and type(c.ops[0]) in _OPS):
                continue
            a, b, op = c.left, c.comparators[0], type(c.ops[0])
            if isinstance(a, ast.Constant):
                a, b, op = b, a, _FLIP[op]
            if not (isinstance(b, ast.Constant) and b.value == 360 and isinstance(a, ast.BinOp) and isinstance(a.op, ast.Sub)
                    and all(isinstance(x, ast.Name) and "phi" in x.id for x in (a.left, a.right))):
                continue
            sites.append((m, q, c, _OPS[op]))
    val = [s for s in sites if s[1].startswith("check_")]
    cons = [s for s in sites if not s[1].startswith("check_")]
    # no validator comparison = every ordering is admitted (then `< 360` and `!= 360` no longer agree for spans above 360)
    res.require(len(cons) >= 2, f"R8: anchors vanished (span-vs-360 comparisons: {len(val)} in validators, {len(cons)} in consumers)")
    admitted = [i for i in range(3) if not any(s[3][i] for s in val)]      # orderings no validator predicate rejects
    parts = {}
    for m, q, c, tt in cons:
        part = frozenset({frozenset(i for i in admitted if tt[i]), frozenset(i for i in admitted if not tt[i])})
        parts.setdefault(part, []).append((m, q, c))
    names = "<=>"
    ref = max(parts.items(), key=lambda kv: (any(frozenset() not in kv[0] for _ in [0]), len(kv[1])))[0]
    for part, ss in parts.items():
        for m, q, c in ss:
            ok = part == ref and frozenset() not in part
            res.ob(f"R8:{q}:{norm(c)}", ok, {"rule": "R8", "site": q, "comparison": norm(c), "admitted_orderings": [names[i] for i in admitted],
                                             "partition": sorted("".join(names[i] for i in sorted(p)) for p in part)})
            if not ok:
                res.add(Finding("R8", m.rel, q, c, "this comparison of the angular span with 360 does not separate the full ring (span = 360, admitted by the "
                                f"validator) from a proper segment the way the other {len(cons) - len(ss)} site(s) do: a 360 degree body is treated as a segment "
                                "here and as a full ring elsewhere", c.lineno))


def run(repo, res, tier):
    res.rules = ["R1 single mu0 (constant folding + bindings)", "R2 BHJM return dimensions (44 obligations)", "R3 typed setter sync", "R4 None-flow", "R5 one inside-mask for J/M and for +-J", "R6 paired excitation stores atomic", "R7 every normal setter exit writes both", "R8 span-vs-360 comparisons partition the admitted spans alike", "R9 per-axis siblings use one axis each", "R10 no store through an array-indexed copy (lost update)"]
    scan_constants(repo, res)
    # R9: per-axis code of the numerical layer (inside masks, bounding boxes, component formulas) is one template per axis
    import rules_axis
    n9 = rules_axis.run(repo, res, "R9", lambda mn: mn.startswith("magpylib._src.fields"))
    res.require(n9 >= 8, f"R9: only {n9} per-axis groups found in the numerical layer")
    # R10: a correction term (the inner hull of a hollow body, -J inside) written through an array-indexed copy never reaches the result
    import rules_lostwrite
    rules_lostwrite.run(repo, res, "R10", lambda mn: mn.startswith("magpylib._src.fields"))
    results = dim_rules.run_fields()
    res.require(len(results) >= 44, f"only {len(results)} field-function runs (expected >= 44)")
    errors = []
    for r in results:
        res.evaluations += r["nexpr"]
        if r.get("undecided"):
            u = f"DIM-UNDECIDED {r['entry']}/{r['field']}: a construct outside the typed fragment ({r['undecided'][:90]}); nothing claimed for this entry"
            if u not in res.undecided:
                res.undecided.append(u)
            if not isinstance(r.get("dim"), tuple):
                continue
        if r["error"]:
            errors.append(f"{r['entry']}/{r['field']}: {r['error']}")
            continue
        res.ob(f"R2:{r['entry']}/{r['field']}", r["ok"], {"rule": "R2", "entry": r["entry"], "field": r["field"], "function": r["function"],
                                                          "inferred": r["out"], "expected_(L,X,mu0)": r["expected"] or "identically zero"})
        if not r["ok"]:
            res.add(Finding("R2", r["module"].split(".")[-1] + ".py", r["function"], f"field={r['field']} returns {r['out']}",
                            f"expected {r['expected'] or 'identically zero'} for {r['entry']} ({r['kind']})"))
    setter_sync(repo, res)
    mask_consistency(repo, res)
    paired_excitation_stores(repo, res)
    full_ring_threshold(repo, res)
    # R4 = C17/S5 restricted to the excitation setters
    c17.none_flow(repo, res, rule="R4", only_classes=("BaseMagnet", "BaseCurrent", "Dipole"))
    if errors and not res.new_findings():
        raise AnalysisError("construct outside the modelled fragment: " + " | ".join(errors[:3]))
    res.notes += errors
    res.assumptions += ["literal annotation: 1e-7 in magnet_cylinder_segment_Hfield stands for mu0/4pi (5e-10 relative deviation in H, self-consistent in B)",
                        "declared parameter dimensions (dim_rules.PARAM_DIM)"]
    return {}


MANIFEST = {
    "category": "other",
    "text": "Static decision of the unit-bookkeeping clauses of C02: for all 11 field functions and each of B,H,J,M the returned value is typed over "
            "(length, excitation, mu0) and must carry the right power of mu0 (44 obligations, every branch visited once); no second permeability "
            "constant may exist (package-wide constant folding); the magnet setters must cross-assign with the exported mu0 and handle None. "
            "Mask placement of the +J term and surface points are not decided. Also decided: the region where J/M are kept equals the region where +-J enters B/H in every magnet field function (reaching-definition comparison), and the two excitation attributes are written atomically and on every normal setter exit. Round 3: every comparison of the CylinderSegment angular span with 360 partitions the admitted spans alike across validator, field code and display (R8, finite orderings). Rounds 6-7: per-axis sibling code uses one template per axis and names every axis once (R9), no store goes through an array-indexed copy (R10 lost update), selections are recognised by role (masks or row numbers).",
    "design_ref": "DESIGN.md §3 C02",
    "note": "Trusted: abstract interpreter + NumPy transfer table, declared parameter dimensions, one literal annotation (1e-7 = mu0/4pi), one triaged pure-number constant.",
    "technique": "static analysis: dimension-typing abstract interpretation, constant folding, def-use None-flow",
}
