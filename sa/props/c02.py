"""C02 - B = mu0*H + J everywhere; J and M report the body's polarization.

Decided clauses (unit bookkeeping; each is a necessary condition of the identities):
  R1  single mu0: no constant expression in the package folds to mu0 or 1/mu0 (within 1e-6 relative) except the one
      binding scipy.constants.mu_0; names MU0/mu_0 resolve to that binding
  R2  BHJM bookkeeping (E2-DIM with `field` bound to each literal): magnets B:X H:X/mu0 J:X M:X/mu0; currents and dipole
      B:X*mu0*L^k H:X*L^k, J and M identically zero; Triangle J/M zero; each literal reaches a `return`
  R3  setter sync typed: BaseMagnet.magnetization / polarization setters cross-assign with a factor of dimension mu0^(+-1)
      that is the exported constant
  R4  None-flow: a value returned by a validator called with allow_None=True reaches no arithmetic / norm unguarded
Not decided: that +J/-J is applied under the right mask (same units either way); pointwise identity at surface points.
"""
from __future__ import annotations

import ast
import math

import dim_rules
from common import AnalysisError, Finding, norm
from props import c17

EXPLANATION = ("unit bookkeeping of the four field outputs by dimension typing (44 return obligations), a package-wide constant-folding scan "
               "for hand-typed permeabilities, typed cross-assignment and None-flow in the magnet excitation setters. "
               "Decides that B,H,J,M carry consistent powers of the single exported mu0; does not decide masks or surface points.")

MU0 = 1.25663706212e-06
# triaged constants: (function, repr of folded value) -> reason
BENIGN_CONST = {
    ("current_circle_Hfield", "795774.7154594767"): "1e-6/20 * 795774.7 = 1/(8 pi): a pure number (the DIM run types the result with mu0^0)",
}


def fold(n):
    """numeric value of a constant expression or None"""
    if isinstance(n, ast.Constant) and isinstance(n.value, (int, float)) and not isinstance(n.value, bool):
        return float(n.value)
    if isinstance(n, ast.Attribute) and n.attr == "pi" and isinstance(n.value, ast.Name) and n.value.id in ("np", "numpy", "math"):
        return math.pi
    if isinstance(n, ast.Name) and n.id == "pi":
        return math.pi
    if isinstance(n, ast.UnaryOp) and isinstance(n.op, (ast.USub, ast.UAdd)):
        v = fold(n.operand)
        return None if v is None else (-v if isinstance(n.op, ast.USub) else v)
    if isinstance(n, ast.BinOp):
        a, b = fold(n.left), fold(n.right)
        if a is None or b is None:
            return None
        try:
            if isinstance(n.op, ast.Add):
                return a + b
            if isinstance(n.op, ast.Sub):
                return a - b
            if isinstance(n.op, ast.Mult):
                return a * b
            if isinstance(n.op, ast.Div):
                return a / b
            if isinstance(n.op, ast.Pow):
                return a ** b
        except (ZeroDivisionError, OverflowError, ValueError):
            return None
    return None


def mu_like(v):
    if v is None or v == 0 or isinstance(v, complex):
        return None
    v = abs(v)
    for ref, nm in ((MU0, "mu0"), (1 / MU0, "1/mu0"), (MU0 / (4 * math.pi) * 4 * math.pi, "mu0")):
        if abs(v - ref) <= 1e-6 * ref:
            return nm
    return None


def scan_constants(repo, res):
    n_expr = 0
    for m, qn, fn, cl in repo.all_functions():
        stack = [fn]
        while stack:
            n = stack.pop()
            if isinstance(n, ast.expr):
                v = fold(n)
                if v is not None:
                    n_expr += 1
                    k = mu_like(v)
                    if k:
                        short = qn.split(".")[-1].replace(" (setter)", "")
                        ok = (short, repr(v)) in BENIGN_CONST
                        res.ob(f"R1:{qn}:{norm(n)}", ok, {"rule": "R1", "function": qn, "expression": norm(n), "folds_to": v, "looks_like": k,
                                                         "triaged_benign": ok})
                        if not ok:
                            res.add(Finding("R1", m.rel, qn, n, f"constant folds to {v!r} ~ {k}: a second, hand-typed permeability "
                                            f"(exported mu_0 = {MU0!r})", n.lineno))
                    continue  # do not descend into a folded expression
            stack.extend(ast.iter_child_nodes(n))
    # module level
    for m in repo.mods.values():
        for name, v in m.assigns.items():
            val = fold(v)
            if val is not None and mu_like(val):
                res.ob(f"R1:{m.name}:{name}", False)
                res.add(Finding("R1", m.rel, f"<module>.{name}", v, f"module constant folds to {val!r} ~ {mu_like(val)}", v.lineno))
    # names
    n_names = 0
    for m in repo.mods.values():
        for local, (im, a) in m.imports.items():
            if local in ("MU0", "mu_0", "mu0") or a in ("mu_0",):
                n_names += 1
                ok = im == "scipy.constants" and a == "mu_0"
                # re-export chain inside the package
                if not ok and im in repo.mods:
                    r = repo.resolve_name(m, local)
                    ok = bool(r and r[0] == "ext" and r[1] == "scipy.constants.mu_0")
                res.ob(f"R1:name:{m.name}.{local}", ok, {"rule": "R1", "module": m.name, "name": local, "bound_to": f"{im}.{a}"})
                if not ok:
                    res.add(Finding("R1", m.rel, "<module>", f"{local} imported from {im}.{a}", "permeability name not bound to scipy.constants.mu_0"))
    res.require(n_names >= 5, f"only {n_names} mu0 bindings found (expected the field modules + magpylib/__init__)")
    res.analysed["constant_expressions_folded"] = n_expr
    res.analysed["mu0_name_bindings"] = n_names


def setter_sync(repo, res):
    """R3: interpret the cross-assignment expressions of the BaseMagnet setters with DIM"""
    from absint import ARepo, Interp, Env, Const, Unknown
    from dimdom import D, DimDomain
    import common
    c = repo.cls("BaseMagnet")
    for prop, other, src_dim, want in (("magnetization", "_polarization", D(x=1, m=-1), (0, 1, 0)),
                                        ("polarization", "_magnetization", D(x=1), (0, 1, -1))):
        res.require(prop in c.setters, f"anchor vanished: BaseMagnet.{prop} setter")
        fn = c.setters[prop]
        stores = [n for n in ast.walk(fn) if isinstance(n, ast.Assign) and any(
            isinstance(t, ast.Attribute) and t.attr == other for t in n.targets) and not (isinstance(n.value, ast.Constant) and n.value.value is None)]
        res.require(stores, f"BaseMagnet.{prop} setter no longer assigns {other}")
        for st in stores:
            arepo = ARepo(common.REPO)
            dom = DimDomain()
            dom.repo_summaries = {}
            it = Interp(arepo, dom)
            env = Env()
            env.module = arepo.module(c.mod.name)
            # every local / self attribute that stands for the user's validated value has the source dimension
            for n in ast.walk(st.value):
                if isinstance(n, ast.Name) and n.id not in ("np", "MU0", "mu_0"):
                    env.set(n.id, src_dim)

            class SelfV:
                pass
            dom_attr = dom.attr

            def attr(recv, name, node, _d=dom_attr):
                if recv is SELF:
                    return src_dim
                return _d(recv, name, node)
            SELF = Const("<self>")
            env.set("self", SELF)
            dom.attr = attr
            try:
                out = it.expr(st.value, env)
            except Exception as e:  # noqa
                raise AnalysisError(f"R3: cannot type {norm(st)}: {e}")
            ok = isinstance(out, D) and not out.poly and tuple(out.dim) == tuple(want)
            res.ob(f"R3:{prop}->{other}", ok, {"rule": "R3", "setter": prop, "store": norm(st), "typed_as": repr(out), "expected_(L,X,mu0)": want})
            if not ok:
                res.add(Finding("R3", c.mod.rel, f"BaseMagnet.{prop} (setter)", st,
                                f"cross-assignment types as {out!r}, expected exponents {want}: the conversion factor is not the exported mu0", st.lineno))


def run(repo, res, tier):
    res.rules = ["R1 single mu0 (constant folding + bindings)", "R2 BHJM return dimensions (44 obligations)", "R3 typed setter sync", "R4 None-flow"]
    scan_constants(repo, res)
    results = dim_rules.run_fields()
    res.require(len(results) >= 44, f"only {len(results)} field-function runs (expected >= 44)")
    errors = []
    for r in results:
        res.evaluations += r["nexpr"]
        if r["error"]:
            errors.append(f"{r['entry']}/{r['field']}: {r['error']}")
            continue
        res.ob(f"R2:{r['entry']}/{r['field']}", r["ok"], {"rule": "R2", "entry": r["entry"], "field": r["field"], "function": r["function"],
                                                          "inferred": r["out"], "expected_(L,X,mu0)": r["expected"] or "identically zero"})
        if not r["ok"]:
            res.add(Finding("R2", r["module"].split(".")[-1] + ".py", r["function"], f"field={r['field']} returns {r['out']}",
                            f"expected {r['expected'] or 'identically zero'} for {r['entry']} ({r['kind']})"))
    setter_sync(repo, res)
    # R4 = C17/S5 restricted to the excitation setters
    c17.none_flow(repo, res, rule="R4", only_classes=("BaseMagnet", "BaseCurrent", "Dipole"))
    if errors and not res.findings:
        raise AnalysisError("construct outside the modelled fragment: " + " | ".join(errors[:3]))
    res.notes += errors
    res.assumptions += ["literal annotation: 1e-7 in magnet_cylinder_segment_Hfield stands for mu0/4pi (5e-10 relative deviation in H, self-consistent in B)",
                        "declared parameter dimensions (dim_rules.PARAM_DIM)"]
    return {}


MANIFEST = {
    "category": "other",
    "text": "Static decision of the unit-bookkeeping clauses of C02: for all 11 field functions and each of B,H,J,M the returned value is typed over "
            "(length, excitation, mu0) and must carry the right power of mu0 (44 obligations, every branch visited once); no second permeability "
            "constant may exist (package-wide constant folding); the magnet setters must cross-assign with the exported mu0 and handle None. "
            "Mask placement of the +J term and surface points are not decided.",
    "design_ref": "DESIGN.md §3 C02",
    "note": "Trusted: abstract interpreter + NumPy transfer table, declared parameter dimensions, one literal annotation (1e-7 = mu0/4pi), one triaged pure-number constant.",
    "technique": "static analysis: dimension-typing abstract interpretation, constant folding, def-use None-flow",
}
