"""C18 - copy() yields an equal, fully independent, parentless object.

Decided clauses (structural):
  K1  BaseGeo.copy returns, on every path, a value bound from copy.deepcopy(self)
  K2  the temporary detachment `_parent = None` is a swap-restore pair that is undone on every exit
  K3  no class customises copying (__deepcopy__/__copy__/__reduce__/__reduce_ex__/__getstate__/__setstate__/__getnewargs__)
      and no subclass overrides copy() without delegating to it
  K4  no class-level mutable container is mutated through instances or the class (state that deepcopy does not separate)
  K5  every write performed by copy() other than the K2 pair targets the copy, never self or the keyword values;
      the copy is detached: it is made while self._parent is None (so the deep copy has no parent)
Not decided: field equality of copy and original; independence of third-party payloads held by styles.
"""
from __future__ import annotations

import ast

from flow import BaseClient, Flow, function_exits

from common import Finding, norm
import rules_t1
from rules_writes import collect_writes, root_name, MUTATORS

EXPLANATION = ("copy() is deepcopy(self) on every path, made while the parent link is temporarily cleared and restored on every "
               "exit (swap-restore on exceptional edges), nothing customises deep copying, no class-level mutable state is "
               "mutated, and all keyword overrides are applied to the copy only. Decides structural independence, not value equality.")

DUNDERS = {"__deepcopy__", "__copy__", "__reduce__", "__reduce_ex__", "__getstate__", "__setstate__", "__getnewargs__",
           "__getnewargs_ex__"}


class _AttachClient(BaseClient):
    """typestate of copy(): ATTACHED = the copy may already have been put into a collection (`copy.parent = ..`, or a generic
    `setattr(copy, k, v)` whose key may be "parent"); afterwards nothing that can still reject the call may run"""
    def __init__(self, copy_vars):
        self.copy_vars, self.bad = copy_vars, []
        self.not_parent = set()
        self.key_of = {}
        self.once_stmts = set()

    def call_may_raise(self, call):
        return False

    def assume(self, test, branch, S):
        # `k != "parent"` / `k == "parent"` / `k in ("parent",)`: inside the branch where k cannot be "parent" a setattr does not attach
        if isinstance(test, ast.Compare) and len(test.ops) == 1:
            a, b = test.left, test.comparators[0]
            if isinstance(a, ast.Constant) and isinstance(b, ast.Name):      # `"parent" != k` is the same test
                a, b = b, a
            if isinstance(a, ast.Name) and isinstance(b, ast.Constant) and b.value == "parent":
                is_ne = isinstance(test.ops[0], ast.NotEq)
                if isinstance(test.ops[0], (ast.Eq, ast.NotEq)) and (branch == is_ne):
                    return frozenset(S | {("NOTPARENT", a.id)})
            # `k not in ("parent",)` / `k in (...)` with "parent" among the literals
            if isinstance(a, ast.Name) and isinstance(test.ops[0], (ast.In, ast.NotIn)) and isinstance(b, (ast.Tuple, ast.List, ast.Set)) \
                    and all(isinstance(e, ast.Constant) for e in b.elts):
                has = any(e.value == "parent" for e in b.elts)
                if (has and branch == isinstance(test.ops[0], ast.NotIn)) or (not has and branch == isinstance(test.ops[0], ast.In)):
                    return frozenset(S | {("NOTPARENT", a.id)})
        if isinstance(test, ast.Call) and isinstance(test.func, ast.Attribute) and test.func.attr == "startswith" and isinstance(test.func.value, ast.Name) \
                and test.args and isinstance(test.args[0], ast.Constant) and not "parent".startswith(str(test.args[0].value)) and branch:
            return frozenset(S | {("NOTPARENT", test.func.value.id)})
        return S

    def enter_loop(self, s):
        # `for name, value in D.items()` / `for name in D`: the key variable is drawn from dictionary D
        it, tg = getattr(s, "iter", None), getattr(s, "target", None)
        if isinstance(it, ast.Call) and isinstance(it.func, ast.Attribute) and it.func.attr in ("items", "keys") and isinstance(it.func.value, ast.Name) and not it.args:
            k = tg.elts[0] if it.func.attr == "items" and isinstance(tg, ast.Tuple) and tg.elts else tg
            if isinstance(k, ast.Name):
                self.key_of[k.id] = it.func.value.id
        elif isinstance(it, ast.Name) and isinstance(tg, ast.Name):
            self.key_of[tg.id] = it.id
        elif isinstance(it, ast.Name) and isinstance(tg, ast.Tuple) and tg.elts and isinstance(tg.elts[0], ast.Name):
            self.key_of[tg.elts[0].id] = it.id          # `for name, value in pairs`: the keys are the first components of the list's entries
        elif isinstance(it, ast.Call) and getattr(it.func, "id", "") == "zip" and it.args and isinstance(it.args[0], ast.Name) \
                and isinstance(tg, ast.Tuple) and tg.elts and isinstance(tg.elts[0], ast.Name):
            self.key_of[tg.elts[0].id] = it.args[0].id  # `for name, value in zip(names, values)`

    def _not_parent(self, name, S):
        """the key cannot be "parent": established by a test on this path, or drawn from a dictionary that only ever received such keys"""
        if ("NOTPARENT", name) in S:
            return True
        d = self.key_of.get(name)
        return d is not None and ("CLEANDICT", d) in S and ("DIRTYDICT", d) not in S

    def transfer(self, s, S):
        # dictionaries filled with keys that passed the `!= "parent"` test (two-pass form: sort the keywords first, apply them later)
        if isinstance(s, ast.Assign):
            for t in s.targets:
                if isinstance(t, ast.Subscript) and isinstance(t.value, ast.Name) and isinstance(t.slice, ast.Name):
                    S = frozenset(S | {("CLEANDICT" if self._not_parent(t.slice.id, S) else "DIRTYDICT", t.value.id)})
                for t1, v1 in (zip(t.elts, s.value.elts) if isinstance(t, ast.Tuple) and isinstance(s.value, ast.Tuple) and len(t.elts) == len(s.value.elts) else [(t, s.value)]):
                    if isinstance(t1, ast.Name) and isinstance(v1, ast.Dict) and not v1.keys:
                        S = frozenset(S | {("CLEANDICT", t1.id)})
                    if isinstance(t1, ast.Name) and isinstance(v1, ast.DictComp) and isinstance(v1.key, ast.Name) and len(v1.generators) == 1:
                        S1 = frozenset()
                        for c_ in v1.generators[0].ifs:
                            for part in (c_.values if isinstance(c_, ast.BoolOp) and isinstance(c_.op, ast.And) else [c_]):
                                neg = isinstance(part, ast.UnaryOp) and isinstance(part.op, ast.Not)
                                S1 = self.assume(part.operand if neg else part, not neg, S1)
                        S = frozenset(S | {("CLEANDICT" if ("NOTPARENT", v1.key.id) in S1 else "DIRTYDICT", t1.id)})
        # the list form of the same: `L = []` ... `L.append(k)` / `L.append((k, v))` with k a key that passed the test
        if isinstance(s, ast.Assign):
            for t in s.targets:
                if isinstance(t, ast.Name) and isinstance(s.value, ast.List) and not s.value.elts:
                    S = frozenset(S | {("CLEANDICT", t.id)})
        if isinstance(s, ast.Expr) and isinstance(s.value, ast.Call) and isinstance(s.value.func, ast.Attribute) and s.value.func.attr == "append" \
                and isinstance(s.value.func.value, ast.Name) and len(s.value.args) == 1:
            a0 = s.value.args[0]
            k0 = a0.elts[0] if isinstance(a0, ast.Tuple) and a0.elts else a0
            clean = isinstance(k0, ast.Name) and self._not_parent(k0.id, S)
            S = frozenset(S | {("CLEANDICT" if clean else "DIRTYDICT", s.value.func.value.id)})
        fallible = [c for c in ast.walk(s) if isinstance(c, ast.Call) and (getattr(c.func, "id", "") == "setattr" or getattr(c.func, "attr", "") in ("update", "_process_style_kwargs"))]
        fallible += [t for t in (s.targets if isinstance(s, ast.Assign) else []) if isinstance(t, ast.Attribute) and isinstance(t.value, ast.Name)
                     and t.value.id in self.copy_vars and not t.attr.startswith("_")]
        if id(s) in self.once_stmts:
            # inside a loop that runs at most once the attaching statement does not follow itself
            fallible = [x for x in fallible if not (isinstance(x, ast.Attribute) and x.attr == "parent")]
        if ("ATTACHED",) in S and fallible and s not in self.bad:
            self.bad.append(s)
        attach = False
        if isinstance(s, ast.Assign) and any(isinstance(t, ast.Attribute) and t.attr == "parent" and isinstance(t.value, ast.Name) and t.value.id in self.copy_vars for t in s.targets):
            attach = True
        for c in ast.walk(s):
            if isinstance(c, ast.Call) and getattr(c.func, "id", "") == "setattr" and len(c.args) == 3 and isinstance(c.args[0], ast.Name) and c.args[0].id in self.copy_vars:
                k = c.args[1]
                if isinstance(k, ast.Constant):
                    attach = attach or k.value == "parent"
                elif not (isinstance(k, ast.Name) and self._not_parent(k.id, S)):
                    attach = True
        if attach:
            S = frozenset(S | {("ATTACHED",)})
        return S


def run(repo, res, tier):
    res.rules = ["K1 returns deepcopy(self)", "K2 parent detach restored on all exits", "K3 no copy customisation",
                 "K4 no mutated class-level containers", "K5 writes target the copy", "K6 keyword overrides / lazy style kwargs not shared (ORIGIN)", "K7 the copy joins its new parent last", "K8 parent override not decided by truthiness", "K8b overrides applied by presence, not by `is not None`", "K9 no identity numbers in object state"]
    geo = repo.cls("BaseGeo")
    res.require("copy" in geo.methods, "anchor vanished: BaseGeo.copy")
    fn = geo.methods["copy"]
    rel = geo.mod.rel
    # ---- K1
    deep_names = set()
    for n in ast.walk(fn):
        if isinstance(n, ast.ImportFrom) and n.module == "copy":
            for a in n.names:
                if a.name == "deepcopy":
                    deep_names.add(a.asname or a.name)
    r = repo.resolve_name(geo.mod, "deepcopy")
    if r and r[0] == "ext" and r[1] == "copy.deepcopy":
        deep_names.add("deepcopy")

    def is_deepcopy_self(v):
        if isinstance(v, ast.Call) and len(v.args) == 1 and isinstance(v.args[0], ast.Name) and v.args[0].id == "self" and not v.keywords:
            f = v.func
            if isinstance(f, ast.Name) and f.id in deep_names:
                return True
            if isinstance(f, ast.Attribute) and f.attr == "deepcopy" and isinstance(f.value, ast.Name) and f.value.id == "copy":
                return True
        return False
    binds = {}
    for n in ast.walk(fn):
        if isinstance(n, ast.Assign):
            for t in n.targets:
                if isinstance(t, ast.Name):
                    binds.setdefault(t.id, []).append(n)
    rets = [n for n in ast.walk(fn) if isinstance(n, ast.Return)]
    res.require(rets, "BaseGeo.copy has no return")
    copy_vars = set()
    for rt in rets:
        ok = isinstance(rt.value, ast.Name) and rt.value.id in binds and all(is_deepcopy_self(a.value) for a in binds[rt.value.id])
        if ok:
            copy_vars.add(rt.value.id)
        res.ob(f"K1:return:{norm(rt)}", ok, {"rule": "K1", "return": norm(rt), "bound_from": [norm(a) for a in binds.get(getattr(rt.value, 'id', ''), [])]})
        if not ok:
            res.add(Finding("K1", rel, "BaseGeo.copy", norm(rt), "returned value is not bound from copy.deepcopy(self) on every path", rt.lineno))
    # ---- K2
    t1 = rules_t1.analyse(fn)
    detach = [n for n in ast.walk(fn) if isinstance(n, ast.Assign) and any(
        isinstance(t, ast.Attribute) and t.attr == "_parent" and isinstance(t.value, ast.Name) and t.value.id == "self" for t in n.targets)]
    if t1 is None:
        # no swap at all: acceptable only if copy() never writes self._parent (e.g. detaches the *copy* afterwards)
        ok = not detach
        res.ob("K2:no-swap", ok, {"rule": "K2", "note": "no temporary overwrite in copy()"})
        if not ok:
            res.add(Finding("K2", rel, "BaseGeo.copy", "self._parent overwritten without a restoring store",
                            "the original loses its parent", detach[0].lineno))
    else:
        res.evaluations += t1["exits"]
        res.ob("K2:swap-restore:_parent", not t1["bad"], {"rule": "K2", "attrs": t1["attrs"], "exits_examined": t1["exits"], "unrestored": len(t1["bad"])})
        if t1["bad"]:
            exits = [f"{k}@{norm(n)[:60]}" for k, a, n in t1["bad"]]
            res.add(Finding("K2", rel, "BaseGeo.copy", f"temporary overwrite of {','.join(t1['attrs'])}",
                            f"not restored on {len(exits)} exit(s): " + " ; ".join(exits[:5]), t1["bad"][0][2].lineno))
    # detachment: every deepcopy(self) call happens on a path where self has no parent
    #   accepted shapes: (a) inside the swap region (after `self._parent = None`, before the restore) or
    #   (b) in the else-branch of `if self.parent is not None` / body of `if self.parent is None`, or (c) the copy's _parent is cleared afterwards
    dcalls = [n for n in ast.walk(fn) if is_deepcopy_self(n)]
    cleared_after = any(isinstance(n, ast.Assign) and any(isinstance(t, ast.Attribute) and t.attr == "_parent" and root_name(t) in copy_vars for t in n.targets)
                        and isinstance(n.value, ast.Constant) and n.value.value is None for n in ast.walk(fn))
    for dc in dcalls:
        ok = cleared_after or _detached_at(fn, dc)
        res.ob(f"K5:detached:{dc.lineno}", ok, {"rule": "K5-detach", "call": norm(dc), "detached": ok})
        if not ok:
            res.add(Finding("K5", rel, "BaseGeo.copy", f"deepcopy(self) while self may have a parent: {norm(dc)}",
                            "the copy would keep (a deep copy of) the parent collection", dc.lineno))
    # ---- K7: the copy is attached to a collection (parent= override) only when nothing can reject the call any more
    ac = _AttachClient(copy_vars)
    # loops that run at most once (`for p in (x,) if c else (): ..`, the iterable bound once): their body is not "after itself"
    _defs = {}
    for a_ in ast.walk(fn):
        if isinstance(a_, ast.Assign) and len(a_.targets) == 1 and isinstance(a_.targets[0], ast.Name):
            _defs.setdefault(a_.targets[0].id, []).append(a_.value)

    def _at_most_one(e, depth=0):
        if isinstance(e, ast.Name) and len(_defs.get(e.id, [])) == 1 and depth < 2:
            return _at_most_one(_defs[e.id][0], depth + 1)
        if isinstance(e, (ast.Tuple, ast.List)):
            return len(e.elts) <= 1 and not any(isinstance(x, ast.Starred) for x in e.elts)
        if isinstance(e, ast.IfExp):
            return _at_most_one(e.body, depth) and _at_most_one(e.orelse, depth)
        return False
    for lp in ast.walk(fn):
        if isinstance(lp, ast.For) and _at_most_one(lp.iter):
            ac.once_stmts |= {id(x) for b_ in lp.body for x in ast.walk(b_) if isinstance(x, ast.stmt)}
    function_exits(fn, ac)
    res.ob("K7:copy attached to its new parent last", not ac.bad, {"rule": "K7", "fallible_statements_after_attaching": [norm(b) for b in ac.bad]})
    for b in ac.bad[:1]:
        res.add(Finding("K7", rel, "BaseGeo.copy", b, "an override that can still be rejected is applied after the copy may already have been put into a collection "
                        "(parent= handled in the generic keyword loop): x.copy(parent=c, dimension='bad') raises and leaves a half-made copy inside c", b.lineno))
    # ---- K8: whether the `parent=` override was given is decided by presence / `is not None`, never by truthiness: an (as yet) empty
    #          Collection is falsy (it defines __len__), so `if new_parent:` silently drops copy(parent=Collection())
    pnames = set()
    for a_ in ast.walk(fn):
        if isinstance(a_, ast.Assign) and isinstance(a_.value, ast.Call) and getattr(a_.value.func, "attr", "") in ("pop", "get") \
                and a_.value.args and isinstance(a_.value.args[0], ast.Constant) and a_.value.args[0].value == "parent":
            pnames |= {t.id for t in a_.targets if isinstance(t, ast.Name)}
    for iff in ast.walk(fn):
        if isinstance(iff, (ast.If, ast.IfExp)):
            t_ = iff.test
            while isinstance(t_, ast.UnaryOp) and isinstance(t_.op, ast.Not):
                t_ = t_.operand
            truthy = (isinstance(t_, ast.Name) and t_.id in pnames) or (isinstance(t_, ast.Call) and getattr(t_.func, "attr", "") in ("get", "pop")
                                                                         and t_.args and isinstance(t_.args[0], ast.Constant) and t_.args[0].value == "parent")
            if truthy:
                res.ob(f"K8:{norm(iff.test)}", False)
                res.add(Finding("K8", rel, "BaseGeo.copy", iff.test, "the parent= override is applied only if the given collection is truthy: an empty Collection is falsy, so "
                                "x.copy(parent=Collection()) returns a parentless copy and the collection stays empty", iff.lineno))
    # ---- K8b: an override is applied because it was *given*, not because its value is not None: None is a legal value of several
    #           attributes (orientation=None is the unit rotation, style=None, polarization=None resets).  A named parameter of copy()
    #           with default None that is applied only `if p is not None` silently ignores copy(p=None).
    named = [a_.arg for a_ in fn.args.args[1:] + fn.args.kwonlyargs]
    dflt = {}
    pos_ = fn.args.args
    for a_, d_ in zip(pos_[len(pos_) - len(fn.args.defaults):], fn.args.defaults):
        dflt[a_.arg] = d_
    for a_, d_ in zip(fn.args.kwonlyargs, fn.args.kw_defaults):
        if d_ is not None:
            dflt[a_.arg] = d_
    for pn in named:
        d_ = dflt.get(pn)
        if not (isinstance(d_, ast.Constant) and d_.value is None):
            continue
        admits_none = False
        for cl_ in repo.cls_by_key.values():
            sf = cl_.setters.get(pn)
            if sf is not None and (any(isinstance(k, ast.keyword) and k.arg == "allow_None" and isinstance(k.value, ast.Constant) and k.value.value is True for k in ast.walk(sf))
                                   or any(isinstance(c_, ast.Call) and getattr(c_.func, "id", "") == "check_format_input_orientation" for c_ in ast.walk(sf))
                                   or any(isinstance(c_, ast.Compare) and isinstance(c_.ops[0], (ast.Is, ast.IsNot)) and isinstance(c_.comparators[0], ast.Constant)
                                          and c_.comparators[0].value is None for c_ in ast.walk(sf))):
                admits_none = True
        tests = [c_ for c_ in ast.walk(fn) if isinstance(c_, ast.Compare) and len(c_.ops) == 1 and isinstance(c_.ops[0], (ast.Is, ast.IsNot)) and isinstance(c_.left, ast.Name)
                 and c_.left.id == pn and isinstance(c_.comparators[0], ast.Constant) and c_.comparators[0].value is None]
        ok = not (admits_none and tests)
        res.ob(f"K8b:{pn}", ok, {"rule": "K8b", "parameter": pn, "setter_admits_None": admits_none, "none_tests": [norm(t_) for t_ in tests]})
        if not ok:
            res.add(Finding("K8b", rel, "BaseGeo.copy", tests[0], f"the `{pn}=` override is applied only when its value is not None, but None is a legal value of `{pn}` "
                            f"(its setter admits it): copy({pn}=None) keeps the original's value instead of applying the override", tests[0].lineno))
    # ---- K9: no identity numbers in object state: `id(x)` stored in an attribute is copied verbatim by deepcopy, so the copy's bookkeeping names
    #          the ORIGINAL's objects (and, after those are freed, arbitrary new ones)
    n9 = 0
    for m_, qn_, f_, cl_ in repo.all_functions():
        if not m_.name.startswith("magpylib._src.obj_classes") and m_.name != "magpylib._src.utility":
            continue
        for a_ in ast.walk(f_):
            if isinstance(a_, (ast.Assign, ast.AugAssign)):
                tg_ = a_.targets if isinstance(a_, ast.Assign) else [a_.target]
                if any(isinstance(t_, ast.Attribute) or (isinstance(t_, ast.Subscript) and isinstance(t_.value, ast.Attribute)) for t_ in tg_) \
                        and any(isinstance(c_, ast.Call) and isinstance(c_.func, ast.Name) and c_.func.id == "id" for c_ in ast.walk(a_.value)):
                    n9 += 1
                    res.ob(f"K9:{qn_}:{norm(a_)[:50]}", False)
                    res.add(Finding("K9", m_.rel, qn_, a_, "object identity numbers are stored in object state: deepcopy reproduces the integers, so the copy's bookkeeping "
                                    "refers to the original's objects and membership / removal on the copied tree goes wrong", a_.lineno))
    res.ob("K9:no id() values in object state", n9 == 0, {"rule": "K9", "stores_of_id_values": n9})
    # ---- K5 writes
    for w in collect_writes(fn, set(repo.classes)):
        if w.recv == "self" and w.attr == "_parent":
            continue
        ok = root_name(w.node if not isinstance(w.node, ast.Call) else (w.node.args[0] if w.kind == "setattr" else w.node.func)) in copy_vars \
            or w.recv.split(".")[0] in copy_vars
        res.ob(f"K5:{w.kind}:{w.recv}.{w.attr}", ok, {"rule": "K5", "write": f"{w.kind} {w.recv}.{w.attr}", "targets_copy": ok})
        if not ok:
            res.add(Finding("K5", rel, "BaseGeo.copy", f"{w.kind} {w.recv}.{w.attr}: {norm(w.stmt)}",
                            "copy() writes to something other than the copy", getattr(w.stmt, "lineno", None)))
    for n in ast.walk(fn):
        if isinstance(n, ast.Call) and isinstance(n.func, ast.Attribute) and n.func.attr in MUTATORS:
            rn = root_name(n.func.value)
            if rn in ("self", "kwargs") or (rn is not None and rn in {a.arg for a in fn.args.args}):
                res.ob(f"K5:mut:{norm(n)}", False)
                res.add(Finding("K5", rel, "BaseGeo.copy", norm(n), "copy() mutates self or its keyword values", n.lineno))
    # ---- K6 (ORIGIN): nothing reachable from `self` is stored into the copy except through deepcopy
    import origin_rules
    from origin_rules import O, org_of, run_node
    out, dom, it = run_node(geo.mod.name, fn, dict(self=O({"A:self"}), kwargs=origin_rules.Const({})), name="BaseGeo.copy",
                            summaries={"add_iteration_suffix": lambda d, a, k_, n_: origin_rules.FRESH})
    shared = []
    for base, attr, orgs, n_ in getattr(dom, "attr_stores", []):
        if base.split(".")[0] not in copy_vars:
            continue
        alias = sorted(o_ for o_ in orgs if o_.startswith("A:self") and not o_.endswith(".label") and ".label" not in o_)
        res.ob(f"K6:{norm(n_)[:60]}", not alias, {"rule": "K6", "store": norm(n_), "value_origins": sorted(orgs)}, nontrivial=False)
        if alias:
            shared.append((n_, alias))
    for n_, alias in shared:
        res.add(Finding("K6", rel, "BaseGeo.copy", n_, f"the value stored into the copy still references the original's state ({alias}) - built without "
                        "deepcopy, so the two objects share mutable state", n_.lineno))
    # ---- K3
    n_cls = 0
    for c in repo.classes.values():
        n_cls += 1
        for d in DUNDERS:
            if d in c.methods:
                res.add(Finding("K3", c.mod.rel, f"{c.name}.{d}", f"def {d}", "customised copy protocol changes what deepcopy means", c.methods[d].lineno))
        if c.name != "BaseGeo" and "copy" in c.methods and any(b.name == "BaseGeo" for b in repo.mro(c)):
            f = c.methods["copy"]
            deleg = any(isinstance(x, ast.Call) and isinstance(x.func, ast.Attribute) and x.func.attr == "copy" and
                        isinstance(x.func.value, ast.Call) and getattr(x.func.value.func, "id", "") == "super" for x in ast.walk(f))
            res.ob(f"K3:override:{c.name}.copy", deleg)
            if not deleg:
                res.add(Finding("K3", c.mod.rel, f"{c.name}.copy", "copy override", "does not delegate to BaseGeo.copy", f.lineno))
    res.ob("K3:no-copy-dunders", not any(f.rule == "K3" for f in res.findings), {"rule": "K3", "classes_scanned": n_cls, "dunders": sorted(DUNDERS)})
    # ---- K4
    copied_roots = {"BaseGeo", "BaseCollection", "BaseDisplayRepr", "BaseTransform", "MagicProperties"}
    for c in repo.classes.values():
        if not any(b.name in copied_roots for b in repo.mro(c)):
            continue  # only classes whose instances can be part of a copied object graph (objects and their styles)
        for a, v in c.attrs.items():
            mutable = isinstance(v, (ast.Dict, ast.List, ast.Set)) or (isinstance(v, ast.Call) and isinstance(v.func, ast.Name) and v.func.id in ("dict", "list", "set", "defaultdict"))
            if not mutable:
                continue
            hits = []
            for m, qn, f, cl in repo.all_functions():
                for n in ast.walk(f):
                    tgt = None
                    if isinstance(n, (ast.Assign, ast.AugAssign)):
                        ts = n.targets if isinstance(n, ast.Assign) else [n.target]
                        for t in ts:
                            b = t
                            while isinstance(b, ast.Subscript):
                                b = b.value
                            if b is not t and isinstance(b, ast.Attribute) and b.attr == a:
                                tgt = n
                    if isinstance(n, ast.Call) and isinstance(n.func, ast.Attribute) and n.func.attr in MUTATORS:
                        b = n.func.value
                        while isinstance(b, ast.Subscript):
                            b = b.value
                        if isinstance(b, ast.Attribute) and b.attr == a:
                            # a local copy first?  `x = dict(C.attr)` does not match since receiver is the attribute itself
                            tgt = n
                    if tgt is not None:
                        hits.append((m.rel, qn, tgt))
            res.ob(f"K4:{c.name}.{a}", not hits, {"rule": "K4", "class_attr": f"{c.name}.{a}", "mutation_sites": len(hits)})
            for relp, qn, n in hits:
                res.add(Finding("K4", relp, qn, f"mutates class-level container {c.name}.{a}: {norm(n)}",
                                "shared between original and copy (deepcopy copies instance state only)", n.lineno))
    res.assumptions.append("copy.deepcopy copies the instance __dict__ recursively (no custom protocol: K3)")
    return {}


class _DetachClient(BaseClient):
    """may-fact ATT = `self` may still have a parent.  Cleared by `self._parent = None` and on the branch of a test that found the parent
    (read directly, or through a local bound to `self.parent` / `self._parent`) to be None; set again by any other store to `self._parent`."""
    def __init__(self, fn, call):
        self.call, self.seen = call, []
        binds = {}
        for a in ast.walk(fn):
            if isinstance(a, ast.Assign) and len(a.targets) == 1 and isinstance(a.targets[0], ast.Name):
                binds.setdefault(a.targets[0].id, []).append(a.value)
        self.alias = {n for n, vs in binds.items() if any(self._is_parent(v) for v in vs)
                      and all(self._is_parent(v) or (isinstance(v, ast.Constant) and v.value is None) for v in vs)}

    @staticmethod
    def _is_parent(e):
        return isinstance(e, ast.Attribute) and e.attr in ("parent", "_parent") and isinstance(e.value, ast.Name) and e.value.id == "self"

    def call_may_raise(self, call):
        return False

    def assume(self, test, branch, S):
        if isinstance(test, ast.Compare) and len(test.ops) == 1 and isinstance(test.ops[0], (ast.Is, ast.IsNot)) \
                and isinstance(test.comparators[0], ast.Constant) and test.comparators[0].value is None \
                and (self._is_parent(test.left) or (isinstance(test.left, ast.Name) and test.left.id in self.alias)):
            if isinstance(test.ops[0], ast.Is) == branch:
                return frozenset(S - {("ATT",)})
        return S

    def observe(self, expr, S, stmt):
        if any(x is self.call for x in ast.walk(expr)):
            self.seen.append(("ATT",) in S)

    def transfer(self, s, S):
        if any(x is self.call for x in ast.walk(s)):
            self.seen.append(("ATT",) in S)
        if isinstance(s, ast.Assign):
            for t in s.targets:
                if isinstance(t, ast.Attribute) and t.attr == "_parent" and isinstance(t.value, ast.Name) and t.value.id == "self":
                    if isinstance(s.value, ast.Constant) and s.value.value is None:
                        S = frozenset(S - {("ATT",)})
                    else:
                        S = frozenset(S | {("ATT",)})
        return S


def _detached_at(fn, call):
    """is `call` reached only where self._parent is None (cleared by a store, or found to be None by a test) - on every path"""
    c = _DetachClient(fn, call)
    Flow(c).block(fn.body, frozenset({("ATT",)}))
    return bool(c.seen) and not any(c.seen)


MANIFEST = {
    "category": "other",
    "text": "Static decision of structural independence and detachment of copy(): the result is deepcopy(self) on every path, taken while the "
            "parent link is cleared and restored on every exit; no class customises the copy protocol or mutates class-level containers; every "
            "keyword override is applied to the copy. Does not decide value equality of copy and original. Rounds 4-5: the copy joins its new parent last (K7) and the override is not decided by truthiness (K8). Round 6: no id() values in object state (K9), overrides whose setter admits None are applied by presence (K8b).",
    "design_ref": "DESIGN.md §3 C18",
    "note": "Trusted: python ast; semantics of copy.deepcopy on plain instances.",
    "technique": "static analysis: def-use on BaseGeo.copy, swap-restore typestate on exceptional edges, package-wide class scans",
}
