"""Rule T1 - swap-restore on all exits (temporary overwrite of an attribute of a pre-existing object).

Instance discovery (not a list): a function that stores to `X.a` and elsewhere stores `X.a = <saved value>`
where the saved value is a local bound from `X.a` / `getattr(X, "a", ..)`, or a subscript of `X.a` itself
(`obj._position = obj._position[:m0]`).  Obligation: from every non-restoring store to `X.a`, every exit of
the function - return, explicit raise, exceptional edge of any call - passes a restoring store.
"""
from __future__ import annotations

import ast

from flow import BaseClient, function_exits


PROPERTY_BACKED = {}      # public read-only spelling -> private attribute it returns (`parent` -> `_parent`); filled by init_aliases(repo)


def init_aliases(repo):
    """a property whose getter is `return self._<name>` reads the private attribute: a value saved through the getter is the saved
    value of the attribute (`p = obj.parent ... obj._parent = p` is a swap/restore pair of `_parent`)"""
    PROPERTY_BACKED.clear()
    for cl in repo.cls_by_key.values():
        for g, fn in cl.getters.items():
            rets = [r for r in ast.walk(fn) if isinstance(r, ast.Return) and r.value is not None]
            if len(rets) == 1 and isinstance(rets[0].value, ast.Attribute) and isinstance(rets[0].value.value, ast.Name) and rets[0].value.value.id == "self" \
                    and rets[0].value.attr == "_" + g and not any(isinstance(x, (ast.Assign, ast.AugAssign, ast.Call)) for x in ast.walk(fn)):
                PROPERTY_BACKED[g] = "_" + g


def recv_attr(t):
    if isinstance(t, ast.Attribute):
        return ast.unparse(t.value), t.attr
    return None


def helper_summary(fn):
    """one-level callee summary for pose/attribute helpers: {'restores': attrs, 'overwrites': attrs} of attributes of objects reached
    through the helper's parameters.  A helper *restores* attribute a if all its stores to a are self-slices / saved values."""
    c = T1Client(fn, helpers=None)
    params = [a.arg for a in fn.args.posonlyargs + fn.args.args]
    # `for obj, a0 in zip(objs, saved): obj.a = a0` with objs and saved both parameters: a restore *if* the caller hands in the list it
    # saved from the same objects (decided at the call site)
    param_restores, pr_ids = {}, set()
    for loop in ast.walk(fn):
        if isinstance(loop, ast.For):
            src = c._sources(loop)
            for n in ast.walk(loop):
                if isinstance(n, ast.Assign) and isinstance(n.value, ast.Name) and src.get(n.value.id) in params:
                    for t in n.targets:
                        ra = recv_attr(t)
                        if ra and src.get(ra[0]) in params:
                            param_restores[ra[1]] = (params.index(src[ra[0]]), params.index(src[n.value.id]))
                            pr_ids.add(id(n))
    rest = {ra[1] for ra in c.restores.values()}
    plain = {ra[1] for n, ra in c.stores if id(n) not in c.restores and id(n) not in pr_ids}
    return {"restores": rest - plain, "overwrites": plain, "param_restores": {a: v for a, v in param_restores.items() if a not in plain}}


class T1Client(BaseClient):
    def __init__(self, fn, helpers=None):
        """helpers: {function name: summary} for repo functions called by name (see helper_summary)"""
        self.fn = fn
        self.helpers = helpers or {}
        self.loops = []
        self.saved = {}
        for n in ast.walk(fn):
            if isinstance(n, ast.Assign) and len(n.targets) == 1 and isinstance(n.targets[0], ast.Name):
                v = n.value
                if isinstance(v, ast.Attribute):
                    self.saved[n.targets[0].id] = (ast.unparse(v.value), PROPERTY_BACKED.get(v.attr, v.attr))
                if (isinstance(v, ast.Call) and isinstance(v.func, ast.Name) and v.func.id == "getattr"
                        and len(v.args) >= 2 and isinstance(v.args[1], ast.Constant)):
                    self.saved[n.targets[0].id] = (ast.unparse(v.args[0]), v.args[1].value)
        self.restores, self.stores = {}, []
        for n in ast.walk(fn):
            if isinstance(n, ast.Assign):
                for t in n.targets:
                    ra = recv_attr(t)
                    if ra:
                        self.stores.append((n, ra))
                        v = n.value
                        if isinstance(v, ast.Name) and self.saved.get(v.id) == ra:
                            self.restores[id(n)] = ra
                        if isinstance(v, ast.Subscript) and recv_attr(v.value) == ra:
                            self.restores[id(n)] = ra
        # saved in a list, restored in a loop:  L = [v.a for v in C]  ...  for x, a0 in zip(C, L): x.a = a0
        saved_lists = self.saved_lists = {}
        for n in ast.walk(fn):
            if isinstance(n, ast.Assign) and len(n.targets) == 1 and isinstance(n.targets[0], ast.Name) and isinstance(n.value, ast.ListComp) \
                    and len(n.value.generators) == 1 and isinstance(n.value.elt, ast.Attribute) and isinstance(n.value.generators[0].target, ast.Name) \
                    and isinstance(n.value.elt.value, ast.Name) and n.value.elt.value.id == n.value.generators[0].target.id and not n.value.generators[0].ifs:
                saved_lists[n.targets[0].id] = (n.value.elt.attr, ast.unparse(n.value.generators[0].iter))
        # aligned comprehensions:  M = [x for <gens>] ; L = [x.a for <the same gens>]  =>  L[i] is the saved `a` of M[i]
        comps = {}
        for n in ast.walk(fn):
            if isinstance(n, ast.Assign) and len(n.targets) == 1 and isinstance(n.targets[0], ast.Name) and isinstance(n.value, ast.ListComp):
                comps[n.targets[0].id] = (n.value.elt, " ".join(ast.unparse(g) for g in n.value.generators))
        for L, (elt, gens) in comps.items():
            if isinstance(elt, ast.Attribute) and isinstance(elt.value, ast.Name) and L not in saved_lists:
                for M, (elt2, gens2) in comps.items():
                    if M != L and gens2 == gens and isinstance(elt2, ast.Name) and elt2.id == elt.value.id:
                        saved_lists[L] = (elt.attr, M)
        # aligned appends, the loop form of the same:  M.append(x) ; L.append(x.a)  in one block, each list appended to nowhere else
        app = {}
        for owner_ in ast.walk(fn):
            for f_ in ("body", "orelse", "finalbody"):
                blk = getattr(owner_, f_, None)
                if isinstance(blk, list):
                    for st in blk:
                        if isinstance(st, ast.Expr) and isinstance(st.value, ast.Call) and isinstance(st.value.func, ast.Attribute) and st.value.func.attr == "append" \
                                and isinstance(st.value.func.value, ast.Name) and len(st.value.args) == 1:
                            app.setdefault(st.value.func.value.id, []).append((id(blk), st.value.args[0]))
        for L, sites in app.items():
            if len(sites) == 1 and isinstance(sites[0][1], ast.Attribute) and isinstance(sites[0][1].value, ast.Name) and L not in saved_lists:
                for M, sites2 in app.items():
                    if M != L and len(sites2) == 1 and sites2[0][0] == sites[0][0] and isinstance(sites2[0][1], ast.Name) and sites2[0][1].id == sites[0][1].value.id:
                        saved_lists[L] = (sites[0][1].attr, M)
        # saved in a dictionary keyed by the object:  D = {x: (.., x.a, ..) for x .. in ..}  ...  for x, (.., a0, ..) in D.items(): x.a = a0
        saved_dicts = self.saved_dicts = {}
        for n in ast.walk(fn):
            if isinstance(n, ast.Assign) and len(n.targets) == 1 and isinstance(n.targets[0], ast.Name) and isinstance(n.value, ast.DictComp) \
                    and isinstance(n.value.key, ast.Name):
                k = n.value.key.id
                vals = n.value.value.elts if isinstance(n.value.value, ast.Tuple) else [n.value.value]
                slots = {j: v.attr for j, v in enumerate(vals) if isinstance(v, ast.Attribute) and isinstance(v.value, ast.Name) and v.value.id == k}
                if slots:
                    saved_dicts[n.targets[0].id] = (slots, isinstance(n.value.value, ast.Tuple))
        for loop in ast.walk(fn):
            if not isinstance(loop, ast.For):
                continue
            it = loop.iter
            if isinstance(it, ast.Call) and isinstance(it.func, ast.Attribute) and it.func.attr == "items" and isinstance(it.func.value, ast.Name) \
                    and it.func.value.id in saved_dicts and isinstance(loop.target, ast.Tuple) and len(loop.target.elts) == 2 and isinstance(loop.target.elts[0], ast.Name):
                slots, is_tuple = saved_dicts[it.func.value.id]
                kname, vt = loop.target.elts[0].id, loop.target.elts[1]
                vnames = {j: e.id for j, e in enumerate(vt.elts) if isinstance(e, ast.Name)} if (is_tuple and isinstance(vt, ast.Tuple)) else \
                    ({0: vt.id} if (not is_tuple and isinstance(vt, ast.Name)) else {})
                for n in ast.walk(loop):
                    if isinstance(n, ast.Assign) and isinstance(n.value, ast.Name):
                        for t in n.targets:
                            ra = recv_attr(t)
                            if ra and ra[0] == kname and any(vnames.get(j) == n.value.id and a == ra[1] for j, a in slots.items()):
                                self.restores[id(n)] = ra
        for loop in ast.walk(fn):
            if not isinstance(loop, ast.For):
                continue
            src = self._sources(loop)
            for n in ast.walk(loop):
                if isinstance(n, ast.Assign) and isinstance(n.value, ast.Name) and src.get(n.value.id) in saved_lists:
                    attr, coll = saved_lists[src[n.value.id]]
                    for t in n.targets:
                        ra = recv_attr(t)
                        if ra and ra[1] == attr and src.get(ra[0]) == coll:
                            self.restores[id(n)] = ra
        # an attribute is a swap attribute only if it also has a non-restoring store in this function
        rest_attrs = {ra[1] for ra in self.restores.values()}
        plain = {ra[1] for n, ra in self.stores if id(n) not in self.restores}
        self.helper_calls = {}
        for n in ast.walk(fn):
            if isinstance(n, ast.Call) and isinstance(n.func, ast.Name) and n.func.id in self.helpers and n.func.id != fn.name:
                h0 = self.helpers[n.func.id]
                h = {"restores": set(h0["restores"]), "overwrites": set(h0["overwrites"])}
                for a, (oi, si) in h0.get("param_restores", {}).items():
                    ok = oi < len(n.args) and si < len(n.args) and isinstance(n.args[si], ast.Name) and \
                        self.saved_lists.get(n.args[si].id) == (a, ast.unparse(n.args[oi]))
                    (h["restores"] if ok else h["overwrites"]).add(a)
                if h["restores"] or h["overwrites"]:
                    self.helper_calls[id(n)] = h
                    rest_attrs |= h["restores"]
                    plain |= h["overwrites"]
        self.swap_attrs = rest_attrs & plain

    def assume(self, test, branch, S):
        # `if saved is not None: X.a = saved` after `if saved is not None: X.a = None`: on the path where the saved value is None the
        # attribute was None all along, and the only overwrite there is stores None again - nothing is pending on that path
        if isinstance(test, ast.Compare) and len(test.ops) == 1 and isinstance(test.ops[0], (ast.Is, ast.IsNot)) and isinstance(test.left, ast.Name) \
                and isinstance(test.comparators[0], ast.Constant) and test.comparators[0].value is None and test.left.id in self.saved:
            if isinstance(test.ops[0], ast.Is) == branch:
                recv, attr = self.saved[test.left.id]
                plain_vals = [n.value for n, ra in self.stores if ra == (recv, attr) and id(n) not in self.restores]
                if plain_vals and all(isinstance(v, ast.Constant) and v.value is None for v in plain_vals):
                    return frozenset(f for f in S if f[1] != attr)
        return S

    def call_may_raise(self, call):
        h = self.helper_calls.get(id(call))
        if h and h["restores"] and not h["overwrites"]:
            return False   # a pure restoring helper (only self-slices / saved values): assumed to complete
        return True

    @staticmethod
    def _sources(s):
        """{loop variable: text of the iterable it is drawn from} - `for obj, m0 in zip(objs, lens)` -> {obj: objs, m0: lens}"""
        if not isinstance(s, ast.For):
            return {}
        it, tg = s.iter, s.target
        if isinstance(it, ast.Call) and isinstance(it.func, ast.Name) and it.func.id == "enumerate" and it.args and isinstance(tg, ast.Tuple) and len(tg.elts) == 2:
            it, tg = it.args[0], tg.elts[1]
        if isinstance(it, ast.Call) and isinstance(it.func, ast.Name) and it.func.id == "zip" and isinstance(tg, ast.Tuple) and len(tg.elts) == len(it.args):
            return {ast.unparse(t): ast.unparse(a) for t, a in zip(tg.elts, it.args)}
        if isinstance(it, ast.Call) and isinstance(it.func, ast.Attribute) and it.func.attr in ("items", "keys") and not it.args and isinstance(it.func.value, ast.Name) \
                and isinstance(tg, (ast.Tuple, ast.Name)):
            # `for obj, (..) in D.items()` / `for obj in D.keys()`: the objects are the keys of D
            key = tg.elts[0] if isinstance(tg, ast.Tuple) and tg.elts else tg
            return {ast.unparse(key): f"keys({it.func.value.id})"}
        return {ast.unparse(tg): ast.unparse(it)}

    def _loop_key(self, recv):
        """the collection the receiver of a store is drawn from (innermost enclosing loop that binds it)"""
        base = recv.split(".")[0].split("[")[0]
        for src in reversed(self.loops):
            if src and base in src:
                return src[base]
        return None

    def enter_loop(self, s):
        self.loops.append(self._sources(s))

    def leave_loop(self, s):
        self.loops.pop()

    def exit_loop(self, s, S_before, S_body, S_fix):
        # loop correlation: flags raised inside a loop over iterable I are discharged by a later loop over the
        # same iterable text whose body restores them - also on its zero-iteration path (I is empty in both).
        srcs = set(self._sources(s).values())
        zero = frozenset(f for f in S_before if not (f[2] is not None and f[2] in srcs and self._restores_in(s, f[1])))
        return zero | (S_body if S_body is not None else frozenset())

    def _restores_in(self, loop, attr):
        for n in ast.walk(loop):
            if id(n) in self.restores and self.restores[id(n)][1] == attr:
                return True
            if id(n) in self.helper_calls and attr in self.helper_calls[id(n)]["restores"]:
                return True
        return False

    def transfer(self, s, S):
        for c in ast.walk(s):
            h = self.helper_calls.get(id(c))
            if h:
                for a in h["overwrites"] & self.swap_attrs:
                    hk = next((v for src in reversed(self.loops) if src for v in src.values()), None)
                    S = S | {("tmp", a, hk)}
                for a in h["restores"] & self.swap_attrs:
                    S = frozenset(f for f in S if f[1] != a)
        if isinstance(s, ast.Assign):
            for t in s.targets:
                ra = recv_attr(t)
                if ra and ra[1] in self.swap_attrs:
                    if id(s) in self.restores:
                        S = frozenset(f for f in S if f[1] != ra[1])
                    else:
                        S = S | {("tmp", ra[1], self._loop_key(ra[0]))}
        return S


def analyse(fn, helpers=None):
    """-> None if no swap instance, else dict(attrs, exits, bad=[(kind, attrs, node)], stmts)"""
    c = T1Client(fn, helpers)
    if not c.swap_attrs:
        return None
    exits, n_stmts = function_exits(fn, c)
    bad, seen = [], set()
    for k, St, n in exits:
        if St:
            key = (k, getattr(n, "lineno", 0))
            if key in seen:
                continue
            seen.add(key)
            bad.append((k, sorted({a for _, a, _ in St}), n))
    # T1c: a self-slice restore (`X.a = X.a[:m0]`) gives back the original entries only if the temporary value extends the original
    #      without touching it (np.concatenate / np.pad / np.vstack / np.append of X.a); a value rebuilt by a normalising constructor
    #      (Rotation.from_quat renormalises its quaternions) comes back changed in the last bits
    PREFIX_KEEPING = {"concatenate", "pad", "vstack", "append", "hstack", "r_"}
    inexact = []
    for n, ra in c.stores:
        if id(n) in c.restores and isinstance(n.value, ast.Subscript) and recv_attr(n.value.value) == ra:
            for m, rb in c.stores:
                if id(m) in c.restores or rb != ra:
                    continue
                v = m.value
                keeps = isinstance(v, ast.Call) and getattr(v.func, "attr", getattr(v.func, "id", "")) in PREFIX_KEEPING
                if not keeps:
                    inexact.append((m, n))
    return {"attrs": sorted(c.swap_attrs), "exits": len(exits), "bad": bad, "stmts": n_stmts, "inexact": inexact,
            "restore_stmts": [n for n, ra in c.stores if id(n) in c.restores],
            "store_stmts": [n for n, ra in c.stores if id(n) not in c.restores and ra[1] in c.swap_attrs],
            "helper_calls": len(c.helper_calls)}


def repo_helpers(repo):
    """summaries of all module-level repo functions that overwrite or restore attributes of their arguments"""
    out = {}
    for m in repo.mods.values():
        for name, fn in m.funcs.items():
            try:
                h = helper_summary(fn)
            except RecursionError:
                continue
            if h["restores"] or h["overwrites"] or h.get("param_restores"):
                out[name] = h
    return out
