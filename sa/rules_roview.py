"""Rule RO-VIEW - no read-only / overlapping view becomes object state.

`np.broadcast_to` and `np.lib.stride_tricks.as_strided` return views whose rows share memory and (broadcast_to) are read-only.  The
pose paths of every object are updated *in place* by move/rotate (`ppath[start:end] += ..`), so such a view stored as a path - directly
or through a padding helper - makes the next non-padding operation raise `ValueError: output array is read-only` half way through a
compound operation, or survives a field computation as a changed (non-writable) attribute.  Obligation: in the object, input-check and
field-wrapper modules every such call is the direct argument of a copying constructor (np.array, np.copy, .copy(), np.ascontiguousarray,
np.concatenate, np.tile, np.repeat).  The expected count on a sound tree is zero; an embedded example is checked on every run.
"""
from __future__ import annotations

import ast

from common import AnalysisError, Finding, norm

VIEW_MAKERS = {"broadcast_to", "as_strided", "broadcast_arrays"}
COPIERS = {"array", "copy", "ascontiguousarray", "concatenate", "tile", "repeat", "asfortranarray", "vstack", "hstack", "stack", "pad"}
MODULES = ("magpylib._src.obj_classes", "magpylib._src.fields.field_wrap_BH", "magpylib._src.input_checks", "magpylib._src.utility")


def escaping_views(fn):
    parents = {}
    for n in ast.walk(fn):
        for c in ast.iter_child_nodes(n):
            parents[id(c)] = n
    out = []
    for c in ast.walk(fn):
        if isinstance(c, ast.Call) and getattr(c.func, "attr", getattr(c.func, "id", "")) in VIEW_MAKERS:
            p, copied = parents.get(id(c)), False
            while p is not None and not isinstance(p, ast.stmt):
                if isinstance(p, ast.Call) and getattr(p.func, "attr", getattr(p.func, "id", "")) in COPIERS:
                    copied = True
                p = parents.get(id(p))
            if not copied:
                out.append(c)
    return out


POSITIVE = "def f(a, n):\n    return np.broadcast_to(a, (n, 3))\n"
NEGATIVE = "def f(a, n):\n    return np.array(np.broadcast_to(a, (n, 3)))\n"


def run(repo, res, rule):
    if not (escaping_views(ast.parse(POSITIVE).body[0]) and not escaping_views(ast.parse(NEGATIVE).body[0])):
        raise AnalysisError(f"{rule}: embedded examples no longer told apart")
    n_fn = n = 0
    for m, q, fn, cl in repo.all_functions():
        if not m.name.startswith(MODULES):
            continue
        n_fn += 1
        for c in escaping_views(fn):
            n += 1
            res.add(Finding(rule, m.rel, q, c, "a broadcast / strided view (read-only, rows sharing memory) leaves this expression without a copy: stored as a pose path or "
                            "parameter it makes the next in-place update of the object fail or leaves a changed attribute behind", c.lineno))
    res.ob(f"{rule}:no uncopied broadcast views in object/wrapper code", n == 0, {"rule": rule, "functions_scanned": n_fn, "instances": n,
                                                                                "embedded_examples": "positive fires, negative silent"}, nontrivial=False)
    return n
