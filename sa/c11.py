"""Prototype C11 typestate over tree editors."""
import ast, sys, os
from flow import Flow, join

MAY_RAISE = {"add", "remove", "check_format_input_obj", "format_obj_input"}   # callee summaries (prototype: by hand)

def txt(n): return ast.unparse(n)

class C11Client:
    def __init__(self, fn):
        self.fn, self.loops = fn, []
        # loop variable -> iterable text
        self.itervar = {}
        for n in ast.walk(fn):
            if isinstance(n, ast.For) and isinstance(n.target, ast.Name):
                self.itervar[n.target.id] = txt(n.iter)
    def call_may_raise(self, call):
        f = call.func
        name = f.attr if isinstance(f, ast.Attribute) else getattr(f, "id", None)
        return name in MAY_RAISE
    def enter_loop(self, s): self.loops.append(s)
    def leave_loop(self, s): self.loops.pop()
    def exit_loop(self, s, S_before, S_body, S_fix): return S_before | S_body
    def transfer_with_enter(self, s, S): return S
    def transfer_with_exit(self, s, S): return S
    def key(self, recv):
        r = txt(recv)
        # element of an iterable: key by the iterable so that `self._children = []` discharges it
        if isinstance(recv, ast.Name) and recv.id in self.itervar:
            return "elem:" + self.itervar[recv.id]
        return r
    def transfer(self, s, S):
        S = set(S)
        # attribute stores
        if isinstance(s, (ast.Assign, ast.AugAssign)):
            targets = s.targets if isinstance(s, ast.Assign) else [s.target]
            for t in targets:
                if isinstance(t, ast.Attribute) and t.attr == "_parent":
                    k = self.key(t.value)
                    isnone = isinstance(s.value, ast.Constant) and s.value.value is None
                    if isnone:
                        if ("UPK", k) in S: S.discard(("UPK", k))
                        elif ("DETACHED", k) in S: pass
                        else: S.add(("LPC", k))
                    else:
                        S.add(("PSNL", k))
                if isinstance(t, ast.Attribute) and t.attr == "_children":
                    if isinstance(s, ast.AugAssign):
                        # listing: discharges every parent-set-not-listed
                        S = {f for f in S if f[0] != "PSNL"}
                    else:
                        # replaced list: children whose parent was cleared are no longer listed
                        S = {f for f in S if f[0] != "LPC"}
                    S.add(("STALE", txt(t.value)))
        for c in ast.walk(s):
            if not isinstance(c, ast.Call): continue
            f = c.func
            if isinstance(f, ast.Attribute):
                if f.attr == "_update_src_and_sens":
                    S = {x for x in S if not (x[0] == "STALE" and x[1] == txt(f.value))}
                if f.attr == "remove" and isinstance(f.value, ast.Attribute) and f.value.attr == "_children":
                    k = self.key(c.args[0]); S.add(("UPK", k)); S.add(("STALE", txt(f.value.value)))
                if f.attr == "add":           # callee summary: complete on normal return, refreshes views
                    S = {x for x in S if not (x[0] == "STALE" and x[1] == txt(f.value))}
                if f.attr == "remove" and not (isinstance(f.value, ast.Attribute) and f.value.attr == "_children"):
                    for a in c.args: S.add(("DETACHED", self.key(a)))
            if isinstance(f, ast.Name) and f.id == "rec_obj_remover":
                S.add(("UPK", self.key(c.args[1])))
        return frozenset(S)

def run(path, cls, name, setter=False):
    t = ast.parse(open(path).read())
    for c in ast.walk(t):
        if isinstance(c, ast.ClassDef) and c.name == cls:
            for fn in c.body:
                if isinstance(fn, ast.FunctionDef) and fn.name == name:
                    is_setter = any(isinstance(d, ast.Attribute) and d.attr == "setter" for d in fn.decorator_list)
                    if is_setter != setter: continue
                    cl = C11Client(fn)
                    S, exits = Flow(cl).block(fn.body, frozenset())
                    bad = [(k, {f for f in St if f[0] != "DETACHED"}, n) for k, St, n in exits]
                    bad = [(k, St, n) for k, St, n in bad if St]
                    if S and {f for f in S if f[0] != "DETACHED"}: bad.append(("fallthrough", S, fn))
                    print(f"{cls}.{name}{' (setter)' if setter else ''}: exits={len(exits)} violations={len(bad)}")
                    seen=set()
                    for k, St, n in bad:
                        key=(k, n.lineno, tuple(sorted(St)))
                        if key in seen: continue
                        seen.add(key)
                        print(f"    line {n.lineno} exit={k} pending={sorted(St)} :: {txt(n).splitlines()[0][:70]}")
root = sys.argv[1] if len(sys.argv) > 1 else "/repo"
P = root + "/magpylib/_src/obj_classes/class_Collection.py"
G = root + "/magpylib/_src/obj_classes/class_BaseGeo.py"
for name, st in [("__init__", False), ("add", False), ("remove", False), ("children", True), ("sources", True), ("sensors", True), ("collections", True)]:
    run(P, "BaseCollection", name, st)
run(G, "BaseGeo", "parent", True)
