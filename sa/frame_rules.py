"""E2-FRAME rules: coordinate-frame typing of the transform sites (C03, C04, C09/P1, C10, C19/D3).

Types: Pt[axes;origin]  free Vec[axes]  Rot[from->to]  Quat[from->to]  Mat[from->to]; frames: G (global), a receiver text
for an object's local frame (`src`, `sens`, `self`, ...).  Declarations (trusted specification):
  X._position : Pt[G;G]   X._orientation : Rot[X->G]   X.pixel : Vec[X]
  field-function contract: observers : Vec[S] -> result : Vec[S]       getBH_level1(...) : Vec[G]
  rotate(rotation) : Rot[G->G]     anchor : Pt[G;G]      displacement : Vec[G]
The interpreter runs in tolerant mode; a site is *judged* only when its operand types are known, and every syntactic
`.apply(` call / rotation product in an analysed function must have been judged (else exit 2).
"""
from __future__ import annotations

import ast

import absint
from absint import ARepo, Interp, FuncRef, Const, Seq, Unknown, ExtName, ModRef, V, Unsupported
import framedom
from framedom import FrameDomain, Pt, Vec, Rot, Quat, Zero
from common import AnalysisError, Finding, norm
import common


class Mat(V):
    def __init__(self, frm, to):
        self.frm, self.to = frm, to

    def __repr__(self):
        return f"Mat[{self.frm}->{self.to}]"


class Alt(V):
    """a variable that holds differently typed geometric values on different paths (if/else lanes): every alternative is judged
    at each typed use, so a lane that builds e.g. a local rotation where a global one is needed is reported"""
    def __init__(self, alts):
        self.alts = alts

    def __repr__(self):
        return "Alt(" + " | ".join(map(repr, self.alts)) + ")"


def _typed(v):
    return isinstance(v, (Pt, Vec, Rot, Quat, Mat))


def _distribute(fn_name):
    """evaluate a domain hook once per alternative of Alt operands (at most 8 combinations) and recombine"""
    def wrap(self, *args, **kw):
        base = getattr(super(FD, self), fn_name) if fn_name not in FD._own else FD._own[fn_name].__get__(self)
        pos = [i for i, a in enumerate(args) if isinstance(a, Alt)]
        lpos = [(i, j) for i, a in enumerate(args) if isinstance(a, list) for j, x in enumerate(a) if isinstance(x, Alt)]
        if not pos and not lpos:
            return base(*args, **kw)
        combos = [list(args)]
        for i in pos:
            combos = [c[:i] + [alt] + c[i + 1:] for c in combos for alt in args[i].alts][:8]
        for i, j in lpos:
            nxt = []
            for c in combos:
                for alt in args[i][j].alts:
                    l = list(c[i]); l[j] = alt
                    nxt.append(c[:i] + [l] + c[i + 1:])
            combos = nxt[:8]
        outs = [base(*c, **kw) for c in combos]
        outs = [o for o in outs if o is not None]
        if not outs:
            return None
        r = outs[0]
        for o in outs[1:]:
            r = self.join(r, o, None, silent=True)
        return r
    return wrap


class FD(FrameDomain):
    """FrameDomain + site log, rotation matrices, literal-overwrite rule, boundary summaries"""
    _own = {}

    def join(self, a, b, node, silent=False):
        if silent:
            xs = (a.alts if isinstance(a, Alt) else [a]) + (b.alts if isinstance(b, Alt) else [b])
            if all(_typed(x) for x in xs):
                uniq = []
                for x in xs:
                    if repr(x) not in [repr(u) for u in uniq]:
                        uniq.append(x)
                if len(uniq) == 1:
                    return uniq[0]
                if len(uniq) <= 4:
                    return Alt(uniq)
        if isinstance(a, Alt) or isinstance(b, Alt):
            return Unknown("join")
        return super().join(a, b, node, silent)

    def __init__(self):
        super().__init__()
        self.judged = {}      # id(node) -> (kind, text)
        self.flist = []       # structured findings
        self.repo_summaries = {}

    def report(self, kind, node, msg):
        fn = self.interp.callstack[-1] if self.interp.callstack else "?"
        self.flist.append((kind, fn, node, msg))
        super().report(kind, node, msg)

    def log(self, kind, node):
        self.judged[id(node)] = (kind, norm(node))

    def binop(self, op, a, b, node):
        if isinstance(op, ast.Mult) and isinstance(a, Rot) and isinstance(b, Rot):
            self.log("compose", node)
        if isinstance(op, (ast.Add, ast.Sub)) and isinstance(a, (Pt, Vec)) and isinstance(b, (Pt, Vec)):
            self.log("addsub", node)
        if isinstance(op, ast.MatMult):
            m, v, fwd = (a, b, True) if isinstance(a, Mat) else ((b, a, False) if isinstance(b, Mat) else (None, None, None))
            if m is not None and isinstance(v, (Vec, Pt)):
                self.log("apply", node)
                r = Rot(m.frm, m.to) if fwd else Rot(m.to, m.frm)   # v @ M == M^T v
                return self._apply(r, v, node)
        return super().binop(op, a, b, node)

    def _apply(self, r, x, node):
        if isinstance(x, Vec):
            if x.axes != r.frm:
                self.report("apply", node, f"{r} applied to {x}: operand is expressed in {x.axes}, rotation expects {r.frm}")
            return Vec(r.to)
        if isinstance(x, Pt):
            if x.axes != r.frm:
                self.report("apply", node, f"{r} applied to {x}")
            return Pt(r.to, x.origin) if r.frm == r.to else Pt(r.to, f"rot({x.origin})")
        return Unknown("apply?")

    def method(self, recv, name, args, kwargs, node):
        if isinstance(recv, Rot) and name == "apply" and args and isinstance(args[0], (Vec, Pt)):
            self.log("apply", node)
        if name in ("rotate", "_rotate") and args and isinstance(args[0], Rot):
            # declared: rotate(rotation : Rot[G->G]) - the operation acts on global poses
            self.log("rotate-arg", node)
            if (args[0].frm, args[0].to) != ("G", "G"):
                self.report("rotate-arg", node, f"rotation handed to .{name}() has type {args[0]}; a pose update needs a global rotation Rot[G->G] "
                            "(e.g. new * old^-1, not old^-1 * new)")
        if isinstance(recv, Rot) and name == "as_matrix":
            return Mat(recv.frm, recv.to)
        if isinstance(recv, Mat) and name in ("transpose",):
            return Mat(recv.to, recv.frm)
        if isinstance(recv, (Mat,)) and name in ("copy", "astype", "reshape"):
            return recv
        if isinstance(recv, Rot) and name in ("as_rotvec", "as_euler", "as_mrp", "magnitude"):
            return Unknown(name)
        return super().method(recv, name, args, kwargs, node)

    def attr(self, recv, name, node):
        if isinstance(recv, Mat) and name == "T":
            return Mat(recv.to, recv.frm)
        return super().attr(recv, name, node)

    def store_sub(self, recv, idx_node, idx, val, node, aug=None):
        if aug is None and isinstance(recv, (Quat, Pt, Vec)):
            lit_ = isinstance(val, Const) and isinstance(val.value, (int, float, tuple, list)) and val.value not in (0, 0.0)
            seq_lit = isinstance(val, Seq) and val.items and all(isinstance(i, Const) for i in val.items) and any(i.value != 0 for i in val.items)
            if lit_ or seq_lit:
                self.log("literal-store", node)
                self.report("literal-overwrite", node, f"part of a pose array of type {recv} is overwritten with a constant: poses are data, "
                            "a constant breaks covariance for every pose that is not exactly that constant")
        if aug is not None and isinstance(recv, (Pt, Vec)) and isinstance(val, (Pt, Vec)):
            self.log("addsub", node)
        if aug is None and isinstance(recv, Vec) and isinstance(val, Vec) and recv.axes == "G" and val.axes != "G":
            # in-place change of representation of one slice of the result array (global field -> a sensor's own axes);
            # the remaining slices stay global.  The rotation that produced `val` was judged at its own site.
            self.log("frame-change-store", node)
            return recv
        return super().store_sub(recv, idx_node, idx, val, node, aug)

    def call_external(self, q, args, kwargs, node):
        base = q.split(".")[-1]
        if base in ("empty", "zeros", "zeros_like", "empty_like"):
            return Zero()            # uninitialised / zero arrays are frame-polymorphic
        if base in ("sum", "mean", "delete", "cumsum", "take", "nan_to_num", "atleast_2d", "atleast_1d", "broadcast_to", "moveaxis", "reduceat") and args:
            return args[0] if isinstance(args[0], (Pt, Vec, Quat, Zero)) else super().call_external(q, args, kwargs, node)
        if base == "einsum" and len(args) == 3 and isinstance(args[0], Const) and isinstance(args[0].value, str):
            spec = args[0].value.replace(" ", "")
            if "->" in spec:
                ins, out = spec.split("->")
                a, b = ins.split(",")
                ops = {a: args[1], b: args[2]}
                mats = [(s, v) for s, v in ops.items() if isinstance(v, Mat)]
                vecs = [(s, v) for s, v in ops.items() if isinstance(v, (Vec, Pt))]
                if len(mats) == 1 and len(vecs) == 1:
                    (ms, m), (vs, v) = mats[0], vecs[0]
                    self.log("apply", node)
                    contr = vs[-1]
                    if contr == ms[-1] and ms[-2] in out:
                        return self._apply(Rot(m.frm, m.to), v, node)
                    if contr == ms[-2] and ms[-1] in out:
                        return self._apply(Rot(m.to, m.frm), v, node)      # contraction over the row index: transposed matrix
                    self.report("einsum", node, f"cannot read {spec!r} as a matrix-vector product")
                    return Unknown("einsum")
        if base in ("matmul", "dot") and len(args) == 2:
            return self.binop(ast.MatMult(), args[0], args[1], node)
        if base in ("from_matrix",) and args and isinstance(args[0], Mat):
            return Rot(args[0].frm, args[0].to)
        if base in ("swapaxes", "transpose") and args and isinstance(args[0], Mat):
            return Mat(args[0].to, args[0].frm)
        return super().call_external(q, args, kwargs, node)


for _n in ("binop", "method", "store_sub", "attr", "subscript", "store_attr", "call_external"):
    FD._own[_n] = FD.__dict__.get(_n) or getattr(FrameDomain, _n)
    setattr(FD, _n, _distribute(_n))


def _find_fn(arepo, modname, fn):
    mod = arepo.module(modname)
    if mod is None:
        raise AnalysisError(f"anchor module vanished: {modname}")
    name, _, kind = fn.partition(":")
    if "." in name:
        cname, mname = name.split(".")
        for c in ast.walk(mod.tree):
            if isinstance(c, ast.ClassDef) and c.name == cname:
                for m in c.body:
                    if isinstance(m, ast.FunctionDef) and m.name == mname and (kind == "setter") == any(
                            isinstance(d, ast.Attribute) and d.attr == "setter" for d in m.decorator_list):
                        return mod, m
        raise AnalysisError(f"anchor vanished: {modname}.{fn}")
    if name not in mod.funcs:
        raise AnalysisError(f"anchor vanished: {modname}.{fn}")
    return mod, mod.funcs[name]


def run_fn(modname, fn, params, summaries=None, root=None):
    arepo = ARepo(root or common.REPO)
    dom = FD()
    dom.repo_summaries = summaries or {}
    it = Interp(arepo, dom)
    it.tolerant = True
    mod, node = _find_fn(arepo, modname, fn)
    f = FuncRef(mod, node, name=fn)
    out = it.call_func(f, [], params, node)
    return out, dom, it, node, mod


def unjudged_sites(node, dom, also_funcs=()):
    """syntactic rotation sites in `node` that the interpreter did not judge"""
    out = []
    for n in ast.walk(node):
        if isinstance(n, ast.Call) and isinstance(n.func, ast.Attribute) and n.func.attr == "apply":
            recv = ast.unparse(n.func.value)
            if ("orient" in recv or "rot" in recv.lower()) and id(n) not in dom.judged:
                out.append(norm(n))
    return out


def _emit(res, rule, modrel, dom, fn_label):
    for kind, fn, node, msg in dom.flist:
        res.add(Finding(f"{rule}:{kind}", modrel, fn_label if fn in ("?",) else fn, node, msg, getattr(node, "lineno", None)))


def _vec_G(d, args, kwargs, node):
    return Vec("G")


# ================================================================================================ C03
def c03(repo, res):
    W = "magpylib._src.fields.field_wrap_BH"
    # ---- level 1: global -> source frame -> global
    out, dom, it, node, mod = run_fn(W, "getBH_level1", dict(field_func=ExtName("FIELD_FUNC"), field=Const("B"), position=Pt("G", "G"),
                                                             orientation=Rot("src", "G"), observers=Pt("G", "G")))
    res.evaluations += len(dom.judged)
    _emit(res, "F1", "magpylib/_src/fields/field_wrap_BH.py", dom, "getBH_level1")
    ff_judged = dom.sites_fieldfunc if hasattr(dom, "sites_fieldfunc") else None
    un = unjudged_sites(node, dom)
    field_independent_sites(res, node, dom, "magpylib/_src/fields/field_wrap_BH.py", "getBH_level1")
    ok_ret = isinstance(out, Vec) and out.axes == "G"
    res.ob("F1:getBH_level1:observers->source frame->global", ok_ret and not dom.flist and not un,
           {"rule": "F1", "function": "getBH_level1", "judged_sites": sorted(t for _, t in dom.judged.values()), "returns": repr(out)})
    if un and not dom.flist:
        raise AnalysisError(f"FRAME: rotation site(s) not judged in getBH_level1: {un}; skipped={getattr(it, 'skipped', [])[:3]}")
    if not ok_ret and not dom.flist:
        res.add(Finding("F1:return", "magpylib/_src/fields/field_wrap_BH.py", "getBH_level1", f"returns {out!r}",
                        "the value handed back to level 2 must be the field-function result rotated into the global frame (Vec[G])"))
    # ---- get_src_dict: what level 1 receives
    out, dom, it, node, mod = run_fn(W, "get_src_dict", dict(group=Unknown("group"), n_pix=Unknown(), n_pp=Unknown(), poso=Pt("G", "G")),
                                     summaries={"tile_group_property": lambda d, a, k, n: Unknown("prop")})
    res.evaluations += len(dom.judged)
    _emit(res, "F2", "magpylib/_src/fields/field_wrap_BH.py", dom, "get_src_dict")
    d = out.value if isinstance(out, Const) and isinstance(out.value, dict) else None
    if d is None:
        raise AnalysisError(f"FRAME: get_src_dict does not return a literal-keyed dict any more ({out!r}); skipped={getattr(it, 'skipped', [])[:3]}")
    want = {"position": lambda v: isinstance(v, Pt) and (v.axes, v.origin) == ("G", "G"),
            "orientation": lambda v: isinstance(v, Rot) and v.to == "G" and v.frm != "G",
            "observers": lambda v: isinstance(v, Pt) and (v.axes, v.origin) == ("G", "G")}
    for k, pred in want.items():
        ok = k in d and pred(d[k])
        res.ob(f"F2:get_src_dict:{k}", ok, {"rule": "F2", "key": k, "typed_as": repr(d.get(k))})
        if not ok and not dom.flist:
            if isinstance(d.get(k), Unknown):
                raise AnalysisError(f"FRAME: get_src_dict[{k!r}] not typed ({d.get(k)!r}: {getattr(d.get(k), 'why', '')})")
            res.add(Finding("F2:src_dict", "magpylib/_src/fields/field_wrap_BH.py", "get_src_dict", f"kwargs[{k!r}] : {d.get(k)!r}",
                            "level 1 must receive the source's own global position path, its own local->global orientation path and the global observers"))
    return {}


# ================================================================================================ C04
def c04(repo, res):
    W = "magpylib._src.fields.field_wrap_BH"
    out, dom, it, node, mod = run_fn(
        W, "getBH_level2",
        dict(sources=Unknown(), observers=Unknown(), field=Const("B"), sumup=Const(False), squeeze=Const(True), pixel_agg=Const(None),
             output=Const("ndarray"), in_out=Const("auto")),
        summaries={"getBH_level1": _vec_G, "get_src_dict": lambda d, a, k, n: Const({})})
    res.evaluations += len(dom.judged)
    rel = "magpylib/_src/fields/field_wrap_BH.py"
    _emit(res, "F3", rel, dom, "getBH_level2")
    un = unjudged_sites(node, dom)
    kinds = [k for k, _ in dom.judged.values()]
    res.ob("F3:getBH_level2:pixel placement and field back-rotation", not dom.flist and not un,
           {"rule": "F3", "function": "getBH_level2", "judged_sites": sorted(t for _, t in dom.judged.values())})
    if un and not dom.flist:
        raise AnalysisError(f"FRAME: rotation site(s) not judged in getBH_level2: {un}; skipped={getattr(it, 'skipped', [])[:4]}")
    if kinds.count("apply") < 2 and not dom.flist:
        raise AnalysisError("FRAME: fewer than 2 rotation applications judged in getBH_level2 (pixel placement + field back-rotation expected)")
    # the observers handed to get_src_dict must be global points
    # ---- handedness: the only writes under `handedness == 'left'` negate component 0 of the last axis
    hand_names = {t.id for a in ast.walk(node) if isinstance(a, ast.Assign) and "handedness" in ast.unparse(a.value)
                  for t in a.targets if isinstance(t, ast.Name)}
    hand_left = {t.id: ("left" in ast.unparse(a.value)) for a in ast.walk(node) if isinstance(a, ast.Assign) and "handedness" in ast.unparse(a.value)
                 for t in a.targets if isinstance(t, ast.Name)}
    hand = [n for n in ast.walk(node) if isinstance(n, ast.If) and ("handedness" in ast.unparse(n.test) or
                                                                    any(isinstance(x, ast.Name) and x.id in hand_names for x in ast.walk(n.test)))]
    if not hand:
        raise AnalysisError("anchor vanished: no `handedness` branch in getBH_level2")
    for h in hand:
        is_left = "left" in ast.unparse(h.test) or any(hand_left.get(x.id) for x in ast.walk(h.test) if isinstance(x, ast.Name))
        # the flip, possibly preceded by plain local bookkeeping (`pix_slice = slice(a, b)`)
        def bookkeeping(s_):
            return isinstance(s_, ast.Assign) and len(s_.targets) == 1 and isinstance(s_.targets[0], ast.Name) and not any(
                isinstance(c_, ast.Call) and not (isinstance(c_.func, ast.Name) and c_.func.id in ("slice", "range", "len")) for c_ in ast.walk(s_.value))
        flips = [s_ for s_ in h.body if not bookkeeping(s_)]
        ok = is_left and len(flips) == 1 and not h.orelse
        st = flips[0] if flips else None
        if ok:
            ok = isinstance(st, ast.AugAssign) and isinstance(st.op, ast.Mult) and ast.unparse(st.value) in ("-1", "-1.0") \
                and isinstance(st.target, ast.Subscript)
            if ok:
                sl = st.target.slice
                last = sl.elts[-1] if isinstance(sl, ast.Tuple) else sl
                ok = isinstance(last, ast.Constant) and last.value == 0 and isinstance(sl, ast.Tuple)
        res.ob(f"F4:handedness:{norm(h.test)}", ok, {"rule": "F4", "branch": norm(h.test), "body": [norm(s) for s in h.body]})
        if not ok:
            res.add(Finding("F4:handedness", rel, "getBH_level2", st if st is not None else (h.body[0] if h.body else h),
                            "a left-handed sensor must differ only by the sign of component 0 of the last axis (x)", h.lineno))
    # ---- F6: the flip precedes the pixel aggregation (min/max/std/ptp do not commute with a sign change)
    aggnames = {t.id for a in ast.walk(node) if isinstance(a, ast.Assign) and isinstance(a.value, ast.Call) and
                getattr(a.value.func, "id", "") == "check_format_pixel_agg" for t in a.targets if isinstance(t, ast.Name)}
    aggs = [c for c in ast.walk(node) if isinstance(c, ast.Call) and isinstance(c.func, ast.Name) and c.func.id in aggnames]
    if aggs:
        first_agg = min(c.lineno for c in aggs)
        late = [h for h in hand if h.lineno > first_agg]
        res.ob("F6:handedness flip precedes pixel aggregation", not late, {"rule": "F6", "flip_lines": [h.lineno for h in hand], "first_aggregation_line": first_agg})
        for h in late:
            res.add(Finding("F6:order", rel, "getBH_level2", h.test, "the left-handed x flip is applied after pixel_agg: reducers such as min/max/std/ptp "
                            "do not commute with the sign change", h.lineno))
    # ---- F10: the transformation into the sensor frame is the same for all four fields
    field_independent_sites(res, node, dom, rel, "getBH_level2")
    # ---- F7: the handedness flip is applied to every sensor, whatever its rotation state
    parents = {}
    for x in ast.walk(node):
        for ch in ast.iter_child_nodes(x):
            parents[id(ch)] = x
    for h in hand:
        p = parents.get(id(h))
        chain = []
        while p is not None and not isinstance(p, ast.For):
            if isinstance(p, ast.If):
                chain.append(norm(p.test))
            p = parents.get(id(p))
        loop = p
        early = []
        if loop is not None:
            for x in ast.walk(loop):
                if isinstance(x, (ast.Continue, ast.Break)) and x.lineno < h.lineno:
                    early.append(x)
        # ... and that loop runs over *all* sensors: enumerate(sensors) / sensors / range(len(sensors)), not a conditional or filtered subset
        full_iter = False
        if loop is not None:
            it = loop.iter
            if isinstance(it, ast.Call) and getattr(it.func, "id", "") == "enumerate" and it.args:
                it = it.args[0]
            t_it = ast.unparse(it)
            # the list of all sensors is what check_format_input_observers returned first; its length may have been given a name
            svars = {t.elts[0].id for a_ in ast.walk(node) if isinstance(a_, ast.Assign) and isinstance(a_.value, ast.Call)
                     and getattr(a_.value.func, "id", "") == "check_format_input_observers" for t in a_.targets
                     if isinstance(t, ast.Tuple) and t.elts and isinstance(t.elts[0], ast.Name)}
            nvars = {t.id for a_ in ast.walk(node) if isinstance(a_, ast.Assign) and ast.unparse(a_.value) in {f"len({v})" for v in svars}
                     for t in a_.targets if isinstance(t, ast.Name)}
            full_iter = t_it in svars or t_it in {f"list({v})" for v in svars} | {f"range(len({v}))" for v in svars} | {f"range({v})" for v in nvars}
            if not full_iter:
                # `zip(sensors, <per-sensor lists>)`, possibly through a name: all sensors are visited when the list of all sensors is one of
                # the zipped sequences and the others are plain names / slices of names (the per-sensor bookkeeping lists)
                zc = it
                if isinstance(zc, ast.Name):
                    defs = [a_.value for a_ in ast.walk(node) if isinstance(a_, ast.Assign) and len(a_.targets) == 1 and isinstance(a_.targets[0], ast.Name)
                            and a_.targets[0].id == zc.id]
                    zc = defs[0] if len(defs) == 1 else zc
                if isinstance(zc, ast.Call) and getattr(zc.func, "id", "") == "zip" and not zc.keywords:
                    def plain(a):
                        while isinstance(a, ast.Subscript) and isinstance(a.slice, ast.Slice):
                            a = a.value
                        return isinstance(a, ast.Name)
                    full_iter = any(isinstance(a, ast.Name) and a.id in svars for a in zc.args) and all(plain(a) for a in zc.args)
            if not full_iter:
                chain.append(f"loop over `{t_it}` instead of all sensors")
        ok7 = not chain and not early and loop is not None
        res.ob("F7:handedness flip reached for every sensor", ok7, {"rule": "F7", "enclosing_conditions": chain, "early_loop_exits_before_it": len(early)})
        if not ok7:
            res.add(Finding("F7:skipped-flip", rel, "getBH_level2", h.test, "the left-handed x flip is not reached for every sensor "
                            f"(nested under {chain} / after {len(early)} `continue`/`break`): e.g. unrotated left-handed sensors would stay right-handed", h.lineno))
    # ---- F8: every block of pixels goes through the aggregator, whatever its size
    for c in aggs:
        p = parents.get(id(c))
        conds = []
        while p is not None and not isinstance(p, (ast.FunctionDef,)):
            par = parents.get(id(p))
            if isinstance(p, ast.IfExp):
                conds.append(norm(p.test))
            if isinstance(p, ast.comprehension):
                conds += [norm(i) for i in p.ifs]
            if isinstance(p, ast.If) and ("shape" in ast.unparse(p.test) or "len(" in ast.unparse(p.test) or "size" in ast.unparse(p.test)):
                conds.append(norm(p.test))
            p = par
        conds = [t for t in conds if "shape" in t or "len(" in t or "size" in t or "ndim" in t]
        res.ob(f"F8:pixel aggregation unconditional:{c.lineno}", not conds, {"rule": "F8", "call": norm(c), "size_conditions": conds})
        if conds:
            res.add(Finding("F8:conditional-agg", rel, "getBH_level2", c, f"pixel_agg is bypassed depending on the block size ({conds}): reducers such as "
                            "std/var/ptp of a single pixel are not the pixel value", c.lineno))
    # names that hold the result of the staticness predicate (def-use closure)
    static_names = set()
    changed = True
    while changed:
        changed = False
        for a in ast.walk(node):
            if isinstance(a, ast.Assign) and len(a.targets) == 1 and isinstance(a.targets[0], ast.Name) and a.targets[0].id not in static_names:
                t = ast.unparse(a.value)
                if "check_static_sensor_orient" in t or any(isinstance(x, ast.Name) and x.id in static_names for x in ast.walk(a.value)):
                    static_names.add(a.targets[0].id)
                    changed = True
            if isinstance(a, (ast.For, ast.comprehension)):
                # a loop variable drawn from the list of staticness flags (directly, or position-wise through zip / enumerate) is such a flag
                it_, tg_ = a.iter, a.target
                if isinstance(it_, ast.Name):
                    ds_ = [x.value for x in ast.walk(node) if isinstance(x, ast.Assign) and len(x.targets) == 1 and isinstance(x.targets[0], ast.Name) and x.targets[0].id == it_.id]
                    it_ = ds_[0] if len(ds_) == 1 and isinstance(ds_[0], ast.Call) else it_
                if isinstance(it_, ast.Call) and getattr(it_.func, "id", "") == "enumerate" and it_.args and isinstance(tg_, ast.Tuple) and len(tg_.elts) == 2:
                    it_, tg_ = it_.args[0], tg_.elts[1]
                pairs_ = list(zip(tg_.elts, it_.args)) if isinstance(it_, ast.Call) and getattr(it_.func, "id", "") == "zip" and isinstance(tg_, ast.Tuple) \
                    and len(tg_.elts) == len(it_.args) else [(tg_, it_)]
                for t1, a1 in pairs_:
                    if isinstance(t1, ast.Name) and t1.id not in static_names and isinstance(a1, ast.Name) and a1.id in static_names:
                        static_names.add(t1.id)
                        changed = True
    # ---- F9: a constant path index on a pose path is only legitimate where staticness was established (or as the last-entry padding)
    for x in ast.walk(node):
        if isinstance(x, ast.Subscript) and isinstance(x.value, ast.Attribute) and x.value.attr in ("_orientation", "_position") and \
                isinstance(x.slice, (ast.Constant, ast.UnaryOp)) and isinstance(x.ctx, ast.Load):
            idx = ast.unparse(x.slice)
            p = parents.get(id(x))
            guards = []
            ch_ = x
            while p is not None:
                if isinstance(p, ast.If):
                    guards.append(norm(p.test))
                if isinstance(p, ast.IfExp) and ch_ is not p.test:
                    guards.append(norm(p.test))          # `<path>[0] if static else <whole path>`
                ch_ = p
                p = parents.get(id(p))
            ok9 = idx == "-1" or any("static" in g or any(nm in g for nm in static_names) for g in guards)
            res.ob(f"F9:{norm(x)}", ok9, {"rule": "F9", "use": norm(x), "guards": guards})
            if not ok9:
                res.add(Finding("F9:constant-path-index", rel, "getBH_level2", x, f"path entry {idx} of a pose path is used for every path step without a "
                                "staticness guard: on a rotating/moving path the other entries are ignored", x.lineno))
    # ---- F5 path predicates
    n5 = path_quantifier_rule(res, node, rel, "getBH_level2")
    # predicates that getBH_level2 delegates to helpers of its own module (`_has_unit_orientation(sens)`)
    wmod = ARepo(common.REPO).module("magpylib._src.fields.field_wrap_BH")
    for c in ast.walk(node):
        if isinstance(c, ast.Call) and isinstance(c.func, ast.Name) and wmod is not None and c.func.id in wmod.funcs and c.func.id not in ("getBH_level2", "getBH_level1", "get_src_dict", "getBH_dict_level2") \
                and any("orientation" in ast.unparse(x) for x in ast.walk(wmod.funcs[c.func.id]) if isinstance(x, ast.Attribute)):
            n5 += path_quantifier_rule(res, wmod.funcs[c.func.id], rel, c.func.id)
    arepo = ARepo(common.REPO)
    um = arepo.module("magpylib._src.utility")
    if um is not None and "check_static_sensor_orient" in um.funcs:
        n5 += path_quantifier_rule(res, um.funcs["check_static_sensor_orient"], "magpylib/_src/utility.py", "check_static_sensor_orient")
        # the per-sensor predicate may live in a helper of the same module
        for c in ast.walk(um.funcs["check_static_sensor_orient"]):
            if isinstance(c, ast.Call) and isinstance(c.func, ast.Name) and c.func.id in um.funcs and c.func.id != "check_static_sensor_orient":
                n5 += path_quantifier_rule(res, um.funcs[c.func.id], "magpylib/_src/utility.py", c.func.id)
    # (when the staticness predicate was inlined into getBH_level2 it was counted there; the floor below holds either way)
    if n5 < 2:
        raise AnalysisError(f"F5: only {n5} orientation-path predicates found (unrotated + static expected)")
    return {}


def field_independent_sites(res, node, dom, rel, fname, rule="F10"):
    """frame transformations must not be control dependent on `field`: B, H, J and M are all vectors and change frames alike"""
    parents0 = {}
    for x in ast.walk(node):
        for ch in ast.iter_child_nodes(x):
            parents0[id(ch)] = x
    for x in ast.walk(node):
        if id(x) in dom.judged and dom.judged[id(x)][0] in ("apply", "frame-change-store"):
            p = parents0.get(id(x))
            guards = []
            while p is not None:
                if isinstance(p, (ast.If, ast.IfExp)) and any(isinstance(y, ast.Name) and y.id == "field" for y in ast.walk(p.test)):
                    guards.append(norm(p.test))
                p = parents0.get(id(p))
            res.ob(f"{rule}:{fname}:{norm(x)[:50]}", not guards, None, nontrivial=False)
            if guards:
                res.add(Finding(f"{rule}:field-dependent-frame", rel, fname, x, f"a frame transformation is applied only for some fields ({guards}): "
                                "B, H, J and M are all vectors and must change frames alike", x.lineno))


def path_quantifier_rule(res, fn, rel, fname, rule="F5"):
    """fast-path predicates over an orientation path (`unrotated`, `static orientation`) must quantify over *all* path
    entries: a comparison that only inspects constant-indexed entries of the path cannot decide a property of every entry."""
    def is_path_expr(e):
        t = ast.unparse(e)
        return isinstance(e, (ast.Call, ast.Attribute)) and ("orientation" in t) and not isinstance(e, ast.Subscript)
    pvars = set()
    for n in ast.walk(fn):
        if isinstance(n, ast.Assign) and len(n.targets) == 1 and isinstance(n.targets[0], ast.Name) and "as_quat" in ast.unparse(n.value):
            v = n.value
            lossy = isinstance(v, ast.Call) and (getattr(v.func, "attr", None) or getattr(v.func, "id", "")) in (
                "abs", "fabs", "absolute", "round", "around", "rint", "floor", "ceil", "sign", "trunc", "square", "clip") and \
                any("as_quat" in ast.unparse(a) for a in v.args)
            if not (lossy or (isinstance(v, ast.Call) and isinstance(v.func, ast.Attribute) and v.func.attr == "as_quat")):
                continue
            pvars.add(n.targets[0].id)
            if lossy:
                # e.g. np.abs(q) / np.round(q): different orientations can have equal images -> the predicate accepts moving paths
                res.ob(f"{rule}b:{fname}:{norm(n)}", False)
                res.add(Finding(f"{rule}:lossy-path", rel, fname, n, "the orientation path is passed through a non-injective function before it is "
                                "compared: distinct orientations can compare equal, so a rotating path can be classified as static/unrotated", n.lineno))
    parents = {}
    for n in ast.walk(fn):
        for c in ast.iter_child_nodes(n):
            parents[id(c)] = n
    gens = set()   # loop variables of generators / for loops running over a whole path
    for n in ast.walk(fn):
        if isinstance(n, (ast.comprehension, ast.For)) and isinstance(n.target, ast.Name):
            it = n.iter
            if (isinstance(it, ast.Name) and it.id in pvars) or (is_path_expr(it) and "as_quat" in ast.unparse(it)):
                gens.add(n.target.id)
    n_dec = 0
    for n in ast.walk(fn):
        is_cmp = isinstance(n, ast.Compare) or (isinstance(n, ast.Call) and isinstance(n.func, ast.Attribute) and n.func.attr in
                                                  ("array_equal", "allclose", "isclose", "array_equiv"))
        if not is_cmp:
            continue
        whole, indexed = 0, 0
        for x in ast.walk(n):
            hit = (isinstance(x, ast.Name) and (x.id in pvars or x.id in gens)) or (is_path_expr(x) and "as_quat" in ast.unparse(x) and isinstance(x, ast.Call))
            if not hit:
                continue
            p = parents.get(id(x))
            if isinstance(x, ast.Name) and x.id in gens:
                whole += 1
            elif isinstance(p, ast.Subscript) and p.value is x and not isinstance(p.slice, ast.Slice):
                idx = p.slice
                const_idx = isinstance(idx, ast.Constant) or (isinstance(idx, ast.UnaryOp) and isinstance(idx.operand, ast.Constant))
                indexed += 1 if const_idx else 0
                whole += 0 if const_idx else 1
            else:
                whole += 1
        if whole + indexed == 0:
            continue
        # the predicate decides a *fast path that skips the rotation*: it has to be exact.  A tolerance (allclose/isclose), a
        # non-injective wrapper (abs, round, ..) or the projection on one quaternion component between the path and the comparison
        # lets a really rotated/rotating sensor pass as unrotated/static
        LOSSY = ("abs", "fabs", "absolute", "round", "around", "rint", "floor", "ceil", "sign", "trunc", "square", "clip")
        why = None
        if isinstance(n, ast.Call) and n.func.attr in ("allclose", "isclose"):
            why = f"tolerance based comparison np.{n.func.attr}"
        for x in ast.walk(n):
            hit = (isinstance(x, ast.Name) and (x.id in pvars or x.id in gens)) or (is_path_expr(x) and "as_quat" in ast.unparse(x) and isinstance(x, ast.Call))
            if not hit:
                continue
            p = parents.get(id(x))
            while p is not None and p is not n:
                if isinstance(p, ast.Call) and (getattr(p.func, "attr", None) or getattr(p.func, "id", "")) in LOSSY:
                    why = why or f"the path goes through {norm(p.func)}() before it is compared"
                if isinstance(p, ast.Subscript) and isinstance(p.slice, ast.Tuple) and len(p.slice.elts) == 2 and isinstance(p.slice.elts[0], ast.Slice) \
                        and isinstance(p.slice.elts[1], (ast.Constant, ast.UnaryOp)):
                    why = why or "only one component of each quaternion is inspected"
                p = parents.get(id(p))
        if why:
            res.ob(f"{rule}b:{fname}:{norm(n)}", False)
            res.add(Finding(f"{rule}:lossy-path", rel, fname, n, f"{why}: distinct orientations can compare equal, so a (slightly) rotated or rotating "
                            "sensor path is classified as unrotated/static and its field is not rotated into the sensor frame", n.lineno))
        n_dec += 1
        ok = whole >= 1
        res.ob(f"{rule}:{fname}:{norm(n)}", ok, {"rule": rule, "function": fname, "predicate": norm(n), "whole_path_operands": whole, "constant_indexed_operands": indexed})
        if not ok:
            res.add(Finding(f"{rule}:path-quantifier", rel, fname, n, "the predicate inspects only constant-indexed entries of the orientation path; "
                            "it cannot hold for every path entry (paths of any length)", n.lineno))
    return n_dec


# ================================================================================================ C09 / C10
def c09_p1(repo, res):
    T = "magpylib._src.obj_classes.class_BaseTransform"
    rel = "magpylib/_src/obj_classes/class_BaseTransform.py"
    tgt = Unknown("target")
    def cfio(d, a, k, n):
        init = k.get("init_format")
        if isinstance(init, Const) and init.value:
            return Quat("G", "G")
        return Seq([Rot("G", "G"), Quat("G", "G")], "py")
    summ = {"check_format_input_orientation": cfio,
            "check_format_input_anchor": lambda d, a, k, n: a[0] if a else Unknown(),
            "check_start_type": lambda d, a, k, n: Const(None),
            "multi_anchor_behavior": lambda d, a, k, n: Seq([a[0], a[1], a[2]], "py"),
            "path_padding": lambda d, a, k, n: Seq([Pt("G", "G"), Quat("target_object", "G"), Unknown("i"), Unknown("j"), Unknown("p")], "py"),
            "path_padding_param": lambda d, a, k, n: Seq([Unknown("pad"), Unknown("start")], "py"),
            "check_format_input_vector": lambda d, a, k, n: a[0] if a else Unknown()}
    for label, params in (("explicit anchor", dict(target_object=tgt, rotation=Rot("G", "G"), anchor=Pt("G", "G"), start=Const("auto"), parent_path=Const(None))),
                          ("parent anchor", dict(target_object=tgt, rotation=Rot("G", "G"), anchor=Const(None), start=Const("auto"), parent_path=Pt("G", "G")))):
        out, dom, it, node, mod = run_fn(T, "apply_rotation", params, summaries=summ)
        res.evaluations += len(dom.judged)
        _emit(res, "P1", rel, dom, "apply_rotation")
        un = unjudged_sites(node, dom)
        kinds = [k for k, _ in dom.judged.values()]
        need = kinds.count("compose") >= 1 and kinds.count("apply") >= 1 and kinds.count("addsub") >= 2
        res.ob(f"P1:apply_rotation:{label}", not dom.flist and need and not un,
               {"rule": "P1", "case": label, "judged_sites": sorted(t for _, t in dom.judged.values())})
        if (un or not need) and not dom.flist:
            # anchoring dropped entirely (rotating positions about the global origin) is a violation, not an analysis gap
            if kinds.count("compose") >= 1 and kinds.count("addsub") < 2 and kinds.count("apply") >= 1:
                res.add(Finding("P1:anchor", rel, "apply_rotation", f"case {label}",
                                "positions are rotated without `- anchor` / `+ anchor` on the same slice"))
            elif kinds.count("compose") >= 1 and kinds.count("apply") == 0 and label == "explicit anchor":
                res.add(Finding("P1:anchor", rel, "apply_rotation", f"case {label}", "positions are not rotated about the anchor"))
            else:
                raise AnalysisError(f"FRAME: apply_rotation ({label}): sites judged {kinds}, unjudged {un}; skipped={getattr(it, 'skipped', [])[:3]}")
    out, dom, it, node, mod = run_fn(T, "apply_move", dict(target_object=tgt, displacement=Vec("G"), start=Const("auto")), summaries=summ)
    res.evaluations += len(dom.judged)
    _emit(res, "P1", rel, dom, "apply_move")
    kinds = [k for k, _ in dom.judged.values()]
    res.ob("P1:apply_move", not dom.flist and kinds.count("addsub") >= 1, {"rule": "P1", "judged_sites": sorted(t for _, t in dom.judged.values())})
    if kinds.count("addsub") < 1 and not dom.flist:
        raise AnalysisError(f"FRAME: apply_move: displacement addition not judged; skipped={getattr(it, 'skipped', [])[:3]}")
    return {}


def c10_algebra(repo, res):
    G = "magpylib._src.obj_classes.class_BaseGeo"
    rel = "magpylib/_src/obj_classes/class_BaseGeo.py"
    summ = {"check_format_input_vector": lambda d, a, k, n: Pt("G", "G"),
            "check_format_input_orientation": lambda d, a, k, n: Quat("self", "G"),
            "pad_slice_path": lambda d, a, k, n: a[1] if len(a) > 1 else Unknown()}
    # position setter
    out, dom, it, node, mod = run_fn(G, "BaseGeo.position:setter", dict(self=Unknown("self"), inp=Unknown("inp")), summaries=summ)
    res.evaluations += len(dom.judged)
    _emit(res, "A1", rel, dom, "BaseGeo.position (setter)")
    kinds = [k for k, _ in dom.judged.values()]
    stores = [n for n in ast.walk(node) if isinstance(n, ast.Assign) and any(isinstance(t, ast.Attribute) and t.attr == "position" and
                                                                              not (isinstance(t.value, ast.Name) and t.value.id == "self") for t in n.targets)]
    ok = not dom.flist and kinds.count("addsub") >= 2 and bool(stores)
    res.ob("A1:position-setter:child.position = new + (child - old)", ok, {"rule": "A1", "judged_sites": sorted(t for _, t in dom.judged.values()),
                                                                            "child_stores": [norm(s) for s in stores]})
    if not ok and not dom.flist:
        if not stores:
            res.add(Finding("A1:children", rel, "BaseGeo.position (setter)", "no child.position store", "children are not carried along"))
        else:
            raise AnalysisError(f"FRAME: position setter: sites {kinds}; skipped={getattr(it, 'skipped', [])[:3]}")
    # orientation setter: children rotated by new * old^-1 about self._position
    out, dom, it, node, mod = run_fn(G, "BaseGeo.orientation:setter", dict(self=Unknown("self"), inp=Unknown("inp")), summaries=summ)
    res.evaluations += len(dom.judged)
    _emit(res, "A2", rel, dom, "BaseGeo.orientation (setter)")
    calls = [c for c in ast.walk(node) if isinstance(c, ast.Call) and isinstance(c.func, ast.Attribute) and c.func.attr in ("rotate", "_rotate")
             and not (isinstance(c.func.value, ast.Name) and c.func.value.id == "self")]
    kinds = [k for k, _ in dom.judged.values()]
    ok = not dom.flist and bool(calls) and kinds.count("compose") >= 1
    anchor_ok = True
    for c in calls:
        a = next((k.value for k in c.keywords if k.arg == "anchor"), c.args[1] if len(c.args) > 1 else None)
        anchor_ok = anchor_ok and a is not None and ast.unparse(a) in ("self._position", "self.position")
        st = next((k.value for k in c.keywords if k.arg == "start"), c.args[2] if len(c.args) > 2 else None)
        anchor_ok = anchor_ok and st is not None and ast.unparse(st) == "0"
    res.ob("A2:orientation-setter:child.rotate(new*old^-1, anchor=self._position, start=0)", ok and anchor_ok,
           {"rule": "A2", "judged_sites": sorted(t for _, t in dom.judged.values()), "child_calls": [norm(c) for c in calls]})
    if not dom.flist:
        if not calls:
            res.add(Finding("A2:children", rel, "BaseGeo.orientation (setter)", "no child.rotate call", "children are not carried along"))
        elif not anchor_ok:
            res.add(Finding("A2:anchor", rel, "BaseGeo.orientation (setter)", calls[0], "children must be rotated about the collection's own position from path index 0", calls[0].lineno))
        elif kinds.count("compose") < 1:
            raise AnalysisError(f"FRAME: orientation setter: composition new*old^-1 not judged; skipped={getattr(it, 'skipped', [])[:3]}")
    return {}


def c19_d3(repo, res):
    U = "magpylib._src.display.traces_utility"
    rel = "magpylib/_src/display/traces_utility.py"
    arepo = ARepo(common.REPO)
    mod = arepo.module(U)
    if mod is None or "place_and_orient_model3d" not in mod.funcs:
        raise AnalysisError("anchor vanished: traces_utility.place_and_orient_model3d")
    node = mod.funcs["place_and_orient_model3d"]
    params = {a.arg: Unknown(a.arg) for a in node.args.args + node.args.kwonlyargs}
    params["orientation"] = Rot("model", "G")
    params["position"] = Pt("G", "G")
    if "model_kwargs" in params:
        params["model_kwargs"] = Unknown("model_kwargs")
    # the vertices are read out of the model dict: x, y, z arrays -> stacked -> Vec[model]
    dom_holder = {}

    def stack_summary(d, a, k, n):
        return Vec("model")
    out, dom, it, node, mod = run_fn(U, "place_and_orient_model3d", params, summaries={})
    res.evaluations += len(dom.judged)
    _emit(res, "D3", rel, dom, "place_and_orient_model3d")
    return dom, it, node
