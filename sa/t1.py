"""Prototype rule T1 swap-restore on all exits."""
import ast, sys, glob, os
from flow import Flow, join

def recv_attr(t):
    if isinstance(t, ast.Attribute):
        return ast.unparse(t.value), t.attr
    return None

class T1Client:
    def __init__(self, fn):
        self.fn = fn
        self.loops = []
        # saved variables: v = X.a  or v = getattr(X, "a", ...)
        self.saved = {}
        for n in ast.walk(fn):
            if isinstance(n, ast.Assign) and len(n.targets) == 1 and isinstance(n.targets[0], ast.Name):
                v = n.value
                if isinstance(v, ast.Attribute):
                    self.saved[n.targets[0].id] = (ast.unparse(v.value), v.attr)
                if isinstance(v, ast.Call) and isinstance(v.func, ast.Name) and v.func.id == "getattr" and len(v.args) >= 2 \
                        and isinstance(v.args[1], ast.Constant):
                    self.saved[n.targets[0].id] = (ast.unparse(v.args[0]), v.args[1].value)
        # classify stores
        self.restores, self.stores = {}, []
        for n in ast.walk(fn):
            if isinstance(n, ast.Assign):
                for t in n.targets:
                    ra = recv_attr(t)
                    if ra:
                        self.stores.append((n, ra))
                        v = n.value
                        if isinstance(v, ast.Name) and self.saved.get(v.id) == ra:
                            self.restores[id(n)] = ra
                        if isinstance(v, ast.Subscript) and recv_attr(v.value) == ra:
                            self.restores[id(n)] = ra
        self.swap_attrs = {ra[1] for ra in self.restores.values()}

    def call_may_raise(self, call):
        return True
    def enter_loop(self, s):
        self.loops.append(ast.unparse(s.iter) if isinstance(s, ast.For) else None)
    def leave_loop(self, s):
        self.loops.pop()
    def exit_loop(self, s, S_before, S_body, S_fix):
        it = ast.unparse(s.iter) if isinstance(s, ast.For) else None
        zero = frozenset(f for f in S_before if not (f[2] is not None and f[2] == it))
        return zero | S_body
    def transfer(self, s, S):
        if isinstance(s, ast.Assign):
            for t in s.targets:
                ra = recv_attr(t)
                if ra and ra[1] in self.swap_attrs:
                    if id(s) in self.restores:
                        S = frozenset(f for f in S if f[1] != ra[1])
                    else:
                        S = S | {("tmp", ra[1], self.loops[-1] if self.loops else None)}
        return S
    def transfer_with_enter(self, s, S): return S
    def transfer_with_exit(self, s, S): return S

def check_function(path, fn, out):
    c = T1Client(fn)
    if not c.swap_attrs:
        return 0
    S, exits = Flow(c).block(fn.body, frozenset())
    bad = [(k, St, n) for k, St, n in exits if St]
    if S:
        bad.append(("fallthrough", S, fn))
    seen = set()
    out.append((path, fn.name, sorted(c.swap_attrs), len(exits)))
    for k, St, n in bad:
        key = (k, getattr(n, "lineno", 0))
        if key in seen: continue
        seen.add(key)
        print(f"  T1 {os.path.basename(path)}:{fn.name}:{getattr(n,'lineno','?')} exit={k} pending={sorted(a for _,a,_ in St)}: {ast.unparse(n).splitlines()[0][:80]}")
    return 1

root = sys.argv[1] if len(sys.argv) > 1 else "/repo"
inst = []
for p in sorted(glob.glob(root + "/magpylib/**/*.py", recursive=True)):
    t = ast.parse(open(p).read())
    for fn in ast.walk(t):
        if isinstance(fn, ast.FunctionDef):
            check_function(p, fn, inst)
print("instances:", [(os.path.basename(p), f, a, f"{e} exits") for p, f, a, e in inst])
