"""Rule AXIS-SIBLING - component-wise code written out three times (x, y, z) must be the same template instantiated per axis.

Instance discovery: a group of sibling expressions - the operands of one `&` / `|` / `and` / `or` chain, or the elements of one tuple / list -
in which at least three members name coordinates through identifiers that differ only by an axis letter (x/y/z as a whole word, prefix or
suffix: `x`, `xmin`, `pos_x`, `x0`).  Each member is reduced to its template (axis letters replaced by a placeholder) and the set of
axis letters it uses.  A member that mixes two axis letters while its siblings of the same template use one each is the deviant
(`(z > ymin - eps)` next to `(y > ymin - eps)`, `(x > xmin - eps)`): one coordinate is tested against the bound of another.
Members that legitimately combine axes (cross products, norms) have templates of their own and are not compared.
"""
from __future__ import annotations

import ast
import re

from common import Finding, norm

AX = re.compile(r"^(?:([xyz])(?=$|_|[0-9]|[a-z]{2,})|(?:.*_)([xyz])$|(?:.*[a-z])?([xyz])$)")


def axis_of(name):
    """axis letter of an identifier such as x, xmin, x0, pos_x - or None"""
    m = re.fullmatch(r"([xyz])(min|max|0|1|2|lo|hi|_\w+|\d*)?", name)
    if m:
        return m.group(1), "@" + (m.group(2) or "")
    m = re.fullmatch(r"(\w*_)([xyz])", name)
    if m:
        return m.group(2), m.group(1) + "@"
    return None


def template(e):
    axes = set()
    import copy
    e2 = copy.deepcopy(e)
    for n in ast.walk(e2):
        if isinstance(n, ast.Name):
            a = axis_of(n.id)
            if a:
                axes.add(a[0])
                n.id = a[1]
    return ast.unparse(e2), axes


def template_seq(e):
    """(template, axis letters in source order)"""
    import copy
    seq = []
    e2 = copy.deepcopy(e)
    for n in sorted((x for x in ast.walk(e2) if isinstance(x, ast.Name)), key=lambda x: (x.lineno, x.col_offset)):
        a = axis_of(n.id)
        if a:
            seq.append(a[0])
            n.id = a[1]
    return ast.unparse(e2), tuple(seq)


def groups(fn):
    for n in ast.walk(fn):
        if isinstance(n, ast.BoolOp):
            yield n, list(n.values)
        elif isinstance(n, ast.BinOp) and isinstance(n.op, (ast.BitAnd, ast.BitOr)):
            # flatten a left-leaning chain once, at its root
            ops, cur = [], n
            while isinstance(cur, ast.BinOp) and type(cur.op) is type(n.op):
                ops.append(cur.right)
                cur = cur.left
            ops.append(cur)
            yield n, list(reversed(ops))
        elif isinstance(n, (ast.Tuple, ast.List)) and len(n.elts) >= 3:
            yield n, list(n.elts)
        # runs of consecutive assignments (`mx = ..x..` / `my = ..y..` / `mz = ..z..`): their right-hand sides are siblings
        for f in ("body", "orelse", "finalbody"):
            blk = getattr(n, f, None)
            if isinstance(blk, list) and blk and isinstance(blk[0], ast.stmt):
                run_ = []
                for st in blk + [None]:
                    if isinstance(st, ast.Assign) and len(st.targets) == 1 and isinstance(st.targets[0], ast.Name):
                        run_.append(st)
                        continue
                    if len(run_) >= 3:
                        yield run_[0], [a.value for a in run_]
                    run_ = []


def run(repo, res, rule, modfilter):
    n_groups = 0
    seen = set()
    for m, qn, fn, cl in repo.all_functions():
        if not modfilter(m.name):
            continue
        inner = set()
        for root, members in groups(fn):
            if id(root) in inner:
                continue
            for x in ast.walk(root):
                if x is not root and isinstance(x, ast.BinOp) and isinstance(getattr(root, "op", None), (ast.BitAnd, ast.BitOr)) and type(x.op) is type(root.op):
                    inner.add(id(x))
            tp = [template(e) for e in members]
            by_t = {}
            for (t, axes), e in zip(tp, members):
                by_t.setdefault(t, []).append((axes, e))
            single = [(t, axes, e) for (t, axes), e in zip(tp, members) if len(axes) == 1]
            if len({next(iter(a)) for _t, a, _e in single}) < 2 or len(single) < 2:
                continue
            n_groups += 1
            # templates used by single-axis members, with one placeholder
            good_templates = {t for t, a, e in single}
            for (t, axes), e in zip(tp, members):
                if len(axes) == 2:
                    # would it be a sibling template if it used one axis only?  compare after collapsing: same token structure
                    if any(_same_structure(t, g) for g in good_templates):
                        key = (qn, norm(e))
                        if key in seen:
                            continue
                        seen.add(key)
                        res.ob(f"{rule}:{qn}:{norm(e)}", False, {"rule": rule, "function": qn, "member": norm(e), "axes": sorted(axes)})
                        res.add(Finding(rule, m.rel, qn, e, f"this member of a per-axis group mixes the axes {sorted(axes)} where its siblings use one axis each "
                                        "(same expression shape): one coordinate is combined with the bound / component of another", e.lineno))
            # members that combine all three axes (`mask_surf_y & mask_surf_z & mask_inside_x` and its two siblings): in a group of one
            # template where the siblings name each axis exactly once, a member that names an axis twice (and another not at all) is the deviant
            by_seq = {}
            for e in members:
                t, seq = template_seq(e)
                if len(seq) == 3:
                    by_seq.setdefault(t, []).append((seq, e))
            for t, lst in by_seq.items():
                full = [x for x in lst if len(set(x[0])) == 3]
                if len(lst) >= 3 and len(full) >= 2:
                    for seq, e in lst:
                        if len(set(seq)) < 3:
                            key = (qn, norm(e))
                            if key in seen:
                                continue
                            seen.add(key)
                            res.ob(f"{rule}:{qn}:{norm(e)}", False, {"rule": rule, "function": qn, "member": norm(e), "axes": list(seq)})
                            res.add(Finding(rule, m.rel, qn, e, f"this member of a per-axis group names the axes {list(seq)} where each of its siblings (same "
                                            "expression shape) names every axis exactly once: one axis is constrained twice and another not at all", e.lineno))
            res.ob(f"{rule}:{qn}:group@{root.lineno}", True, None, nontrivial=False)
    res.analysed[f"{rule}_groups"] = n_groups
    return n_groups


def _same_structure(a, b):
    return a == b
