import numpy as np, magpylib as magpy
from magpylib._src.exceptions import MagpylibBadUserInput
bad=0
try:
    t=magpy.misc.Triangle(polarization=(0,0,1), vertices=np.zeros((4,3))+np.arange(4)[:,None])
    print("Triangle accepted (4,3)"); bad+=1
except MagpylibBadUserInput: pass
try:
    t=magpy.magnet.Tetrahedron(polarization=(0,0,1), vertices=np.zeros((4,2)))
    print("Tetrahedron accepted (4,2)"); bad+=1
except MagpylibBadUserInput: pass
assert bad==0
