"""C20 (the notations are equivalent; styles are independent of what they were built from): a dict given through an underscore keyword,
`Cuboid(style_path={...})`, was kept by reference until the first style access (lazy style creation), whereas the same dict given as
`style={'path': {...}}` was copied.  Editing the caller's dict after the constructor changed the object's style in one notation only."""
import warnings
import magpylib as magpy
warnings.simplefilter("ignore")
d = {"line": {"width": 3}}
c = magpy.magnet.Cuboid(polarization=(0, 0, 1), dimension=(1, 1, 1), style_path=d)
d["line"]["width"] = 7
d2 = {"path": {"line": {"width": 3}}}
c2 = magpy.magnet.Cuboid(polarization=(0, 0, 1), dimension=(1, 1, 1), style=d2)
d2["path"]["line"]["width"] = 7
assert c2.style.path.line.width == 3
assert c.style.path.line.width == 3, f"underscore keyword: the object follows the caller's later edit (width {c.style.path.line.width})"
