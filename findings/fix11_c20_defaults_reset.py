import magpylib as magpy
from magpylib._src.defaults.defaults_utility import linearize_dict
fresh = linearize_dict(magpy.defaults.as_dict(), separator=".")
magpy.defaults.display.style.sensor.arrows.x.show = False
magpy.defaults.display.style.markers.marker.size = 7
magpy.defaults.display.style.base.label = "foo"
magpy.defaults.reset()
after = linearize_dict(magpy.defaults.as_dict(), separator=".")
diff = {k:(fresh[k],after[k]) for k in fresh if fresh[k]!=after[k]}
print(diff)
assert not diff
