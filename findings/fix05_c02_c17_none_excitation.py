import numpy as np, magpylib as magpy
m = magpy.magnet.Cuboid(polarization=(0,0,1), dimension=(1,1,1))
try:
    m.polarization = None
except TypeError as e:
    print("TypeError", e)
print(m.polarization, m.magnetization)
assert m.polarization is None and m.magnetization is None
m2 = magpy.magnet.Cuboid(magnetization=(0,0,1e6), dimension=(1,1,1))
try: m2.magnetization = None
except TypeError as e: print("TypeError", e)
assert m2.polarization is None and m2.magnetization is None
