"""C08 (a field computation leaves every involved object exactly as it was): getBH_level2 tiled the orientation path of shorter objects with
Rotation.from_quat(...) - which renormalises the quaternions - and "restored" it by slicing the tiled rotation.  In a few percent of random
orientations the object's quaternion differed from the original in the last bits after a successful getB."""
import warnings
import numpy as np
from scipy.spatial.transform import Rotation as R
import magpylib as magpy
warnings.simplefilter("ignore")
rng = np.random.default_rng(0)
changed = 0
for _ in range(300):
    src = magpy.magnet.Cuboid(polarization=(0, 0, 1), dimension=(1, 1, 1), orientation=R.from_rotvec(rng.normal(size=3)))
    sens = magpy.Sensor(position=np.linspace((0, 0, 2), (1, 0, 2), 4))
    q0 = src.orientation.as_quat().copy()
    magpy.getB(src, sens)
    changed += not np.array_equal(q0, src.orientation.as_quat())
assert changed == 0, f"{changed} of 300 sources came back from getB with a (bitwise) different orientation"
