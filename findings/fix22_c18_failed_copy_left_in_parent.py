"""C18 (keyword arguments override attributes of the copy only; a rejected call leaves the trees as they were): copy() applied `parent=`
inside the generic keyword loop, so x.copy(parent=c, dimension='bad') raised and left a half-made copy inside c."""
import warnings
import magpylib as magpy
from magpylib._src.exceptions import MagpylibBadUserInput
warnings.simplefilter("ignore")
c = magpy.Collection()
x = magpy.magnet.Cuboid(polarization=(0, 0, 1), dimension=(1, 1, 1))
try:
    x.copy(parent=c, dimension="bad")
    raise SystemExit("the invalid override was accepted")
except MagpylibBadUserInput:
    pass
assert c.children == [], f"the rejected copy was left inside the collection: {c.children}"
y = x.copy(parent=c, position=(1, 2, 3))
assert c.children == [y] and y.parent is c and x.parent is None
