"""C20 known finding: Magnetization.size is an alias of magnetization.arrow.size.  Exits 1 while present."""
import magpylib as magpy
c = magpy.magnet.Cuboid(polarization=(0, 0, 1), dimension=(1, 1, 1))
c.style.magnetization.arrow.size = 8
c.style.update(magnetization_arrow_size=3)          # last assignment should win
print("after update(magnetization_arrow_size=3):", c.style.magnetization.arrow.size)
bad = c.style.magnetization.arrow.size != 3
raise SystemExit(1 if bad else 0)
