"""C20 (styles of different objects are independent; the notations are equivalent): MagicProperties.update(d, path_show=False) merged the
underscore keywords *into the caller's nested dict* d['path'] (magic_to_dict stored a reference and called .update on it), so the same
dict applied to a second object silently carried the first call's keywords along."""
import copy, warnings
import magpylib as magpy
warnings.simplefilter("ignore")
a = magpy.magnet.Cuboid(polarization=(0, 0, 1), dimension=(1, 1, 1))
b = magpy.magnet.Cuboid(polarization=(0, 0, 1), dimension=(1, 1, 1))
d = {"path": {"line": {"width": 3}}}
d0 = copy.deepcopy(d)
a.style.update(d, path_show=False)
assert a.style.path.show is False and a.style.path.line.width == 3
assert d == d0, f"the caller's dict was modified: {d}"
b.style.update(d)
assert b.style.path.show is None, "the second object inherited the first call's keyword through the shared dict"
