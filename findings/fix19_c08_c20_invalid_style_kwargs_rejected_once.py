"""C08 (a failing call, called again, fails identically) / C20 (invalid style names are rejected): constructor style arguments are applied
lazily by the `style` getter, which forgot them *before* applying them.  The first access (e.g. getB(..., output='dataframe') reading the
labels, show(), obj.style) raised for an invalid name, every later access silently succeeded with the invalid argument dropped."""
import warnings
import numpy as np
import magpylib as magpy
warnings.simplefilter("ignore")
c = magpy.magnet.Cuboid(polarization=(0, 0, 1), dimension=(1, 1, 1), style_bad=1, style_color="red")
outcomes = []
for _ in range(2):
    try:
        magpy.getB(c, (1, 2, 3), output="dataframe")
        outcomes.append("returned")
    except AttributeError:
        outcomes.append("AttributeError")
assert outcomes[0] == outcomes[1] == "AttributeError", f"the same call gave {outcomes}"
d = magpy.magnet.Cuboid(polarization=(0, 0, 1), dimension=(1, 1, 1), style_color="red")
assert d.style.color == "red" and d._style_kwargs == {}
