"""C19 (show() draws each object where it is for each displayed path index; quantified over collections and nesting, frame selections):
extract_animation_properties() took the path lengths of the shown objects and of the *direct* children of collections only, so the path of a
moving object inside a nested collection did not count - show(Collection(Collection(moving)), animation=True) had no animation frames (the
object was displayed at one path index only) while Collection(moving) had one frame per path step.  Rule D4 (display code reaches the members
of collections through children_all or a recursive helper), list-building form."""
import warnings
import numpy as np
import magpylib as magpy
warnings.simplefilter("ignore")


def moving():
    s = magpy.magnet.Cuboid(polarization=(0, 0, 1), dimension=(1, 1, 1))
    s.move(np.linspace((0, 0, 0), (1, 0, 0), 10))
    return s


flat = magpy.show(magpy.Collection(moving()), animation=True, backend="plotly", return_fig=True)
nested = magpy.show(magpy.Collection(magpy.Collection(moving())), animation=True, backend="plotly", return_fig=True)
assert len(flat.frames) == 11, len(flat.frames)
assert len(nested.frames) == len(flat.frames), f"nested collection: {len(nested.frames)} frames, one level: {len(flat.frames)}"
print("ok")
