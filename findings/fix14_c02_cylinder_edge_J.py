import numpy as np, magpylib as magpy
c = magpy.magnet.Cylinder(polarization=(0.3,0,1), dimension=(2,2))
p = (1,0,1)   # on the edge
B,H,J = c.getB(p), c.getH(p), c.getJ(p)
print(B,H,J, B-(magpy.mu_0*H+J))
assert np.allclose(B, magpy.mu_0*H+J)
