import magpylib as magpy
magpy.defaults.reset()
magpy.defaults.display.style.sensor.pixel.size = 3
s = magpy.Sensor(pixel=[(0,0,0),(1,0,0)])
from magpylib._src.style import get_style
from magpylib._src.defaults.defaults_classes import default_settings
st = get_style(s, default_settings)
print(st.pixel.size, s.style.pixel.size)
assert st.pixel.size == 3
