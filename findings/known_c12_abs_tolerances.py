"""C12 known findings: absolute tolerances on lengths.  Exits 1 while the defects are present."""
import numpy as np, magpylib as magpy
bad = []
# 1) CylinderSegment: close()/1e-14 margins act at fixed absolute size -> at nanometre numbers a point clearly above the top face counts as "on the surface" (B=0)
def seg(s):
    src = magpy.magnet.CylinderSegment(polarization=(0, 0, 1), dimension=(1*s, 2*s, 1*s, 0, 90))
    return src.getB((1.5*s*np.cos(.5), 1.5*s*np.sin(.5), (0.5+4e-4)*s))
b1, b9 = seg(1.0), seg(1e-9)
print("cylinder segment  s=1:", b1, " s=1e-9:", b9)
if not np.allclose(b1, b9, rtol=1e-6): bad.append("CylinderSegment close()/1e-14 margins")
# 2) TriangularMesh: inside test and face reorientation use eps=1e-12.. / fixed offsets
import warnings; warnings.simplefilter("ignore")
def tm(s, flip):
    m0 = magpy.magnet.TriangularMesh.from_ConvexHull(polarization=(0,0,1), points=np.array([(x,y,z) for x in (-.5,.5) for y in (-.5,.5) for z in (-.5,.5)], float))
    f = m0.faces[:, ::-1] if flip else m0.faces
    m = magpy.magnet.TriangularMesh(polarization=(0,0,1), vertices=m0.vertices*s, faces=f, reorient_faces=True, check_open="ignore")
    return m.getB(np.array((.1,.2,.3))*s)
b1, b7, b7f = tm(1.0, False), tm(1e-7, False), tm(1e-7, True)
print("trimesh cube  s=1:", b1, " s=1e-7:", b7, " s=1e-7 with inward faces:", b7f)
if not (np.allclose(b1, b7, rtol=1e-6) and np.allclose(b1, b7f, rtol=1e-6)): bad.append("TriangularMesh inside test / face reorientation tolerances")
# 3) Triangle: `ind > 1e-12` on a length
def tri(s):
    t = magpy.misc.Triangle(polarization=(0,0,1), vertices=np.array([(0,0,0),(1,0,0),(0,1,0)], float)*s)
    return t.getB(np.array((2.0, 2.0*np.tan(np.deg2rad(1.0))*0+0.0349, 0.0))*s)
b1, b9 = tri(1.0), tri(1e-9)
rel = np.linalg.norm(b1-b9)/np.linalg.norm(b1)
print("triangle rel diff s=1 vs s=1e-9:", rel)
if rel > 1e-8: bad.append("triangle_Bfield ind > 1e-12")
print("scale dependent:", bad)
raise SystemExit(1 if bad else 0)
