import numpy as np, magpylib as magpy, warnings
warnings.simplefilter("ignore")
ok = False
try:
    magpy.magnet.TriangularMesh.from_mesh(polarization=(0,0,1), mesh=np.zeros((5,3,3,2)))
except ValueError as e:
    ok = True
assert ok, "mesh of shape (5,3,3,2) was accepted"
