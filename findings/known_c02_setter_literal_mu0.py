import numpy as np, magpylib as magpy
m = magpy.magnet.Cuboid(magnetization=(0,0,1e6), dimension=(1,1,1))
M = m.getM((0,0,0))
print(M[2]-1e6, m.polarization[2]-1e6*magpy.mu_0)
assert np.all(m.polarization == m.magnetization*magpy.mu_0)
assert abs(M[2]-1e6) <= 1e6*4e-16, M[2]-1e6
