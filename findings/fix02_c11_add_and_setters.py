import magpylib as magpy
x1=magpy.Sensor(); x2=magpy.Sensor(); other=magpy.Collection(x2)
c=magpy.Collection()
try: c.add(x1,x2)
except Exception as e: print(type(e).__name__)
print(x1.parent, c.children)
ok1 = (x1.parent is None) == (x1 not in c.children)
c2=magpy.Collection(magpy.Sensor(), magpy.magnet.Cuboid())
try: c2.children=[magpy.Sensor(), 5]
except Exception as e: print(type(e).__name__)
print(c2.children, c2.sensors, c2.sources)
ok2 = set(map(id,c2.sensors+c2.sources))==set(map(id,c2.children))
c3=magpy.Collection(magpy.Sensor(), magpy.magnet.Cuboid())
try: c3.sensors="bad"
except Exception as e: print(type(e).__name__)
print(c3.children, c3.sensors, c3.sources)
ok3 = set(map(id,c3.sensors+c3.sources))==set(map(id,c3.children))
assert ok1 and ok2 and ok3,(ok1,ok2,ok3)
