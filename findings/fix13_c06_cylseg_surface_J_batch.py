import numpy as np, magpylib as magpy
s = magpy.magnet.CylinderSegment(polarization=(0,0,1), dimension=(1,2,1,0,90))
p_surf = (1.5*np.cos(.5), 1.5*np.sin(.5), 0.5)      # on the top face
p_in = (1.5*np.cos(.5), 1.5*np.sin(.5), 0.1)
J_alone = s.getJ(p_surf)
J_batch = s.getJ([p_surf, p_in])[0]
print(J_alone, J_batch)
assert np.allclose(J_alone, J_batch)
