import numpy as np, magpylib as magpy
v=np.array([(0,0,0),(1,0,0),(0,1,0),(0,0,1)],float); f=[(0,1,2),(0,1,3),(0,2,3),(1,2,3)]
A=magpy.magnet.TriangularMesh(polarization=(0,0,1),vertices=v,faces=f)
B=magpy.magnet.TriangularMesh(polarization=(0,0,1),vertices=v*3+5,faces=f)   # elsewhere, bigger
p=(5.5,5.5,5.5)   # inside B, outside A
J_alone=B.getJ(p)
J_both=magpy.getJ([A,B],p)[1]
print(J_alone,J_both)
np.testing.assert_allclose(J_alone,J_both)
