import numpy as np, magpylib as magpy
c = magpy.magnet.Cuboid(polarization=(0,0,1), dimension=(1,1,1))
s = magpy.Sensor(position=[(0,0,1),(0,0,2),(0,0,3)])
bad = magpy.misc.CustomSource()
try:
    magpy.getB([c,bad], s)
except Exception as e:
    print(type(e).__name__)
print(c._position.shape, len(c._orientation))
assert c._position.shape==(1,3)
