import numpy as np, magpylib as magpy
s = magpy.magnet.CylinderSegment(polarization=(0.2,0,1), dimension=(1,2,1,0,90))
p = (1.5*np.cos(.5), 1.5*np.sin(.5), 0.5)      # on the top face
B,H,J,M = s.getB(p), s.getH(p), s.getJ(p), s.getM(p)
print(B,H,J)
assert np.allclose(B, magpy.mu_0*H+J) and np.allclose(J, magpy.mu_0*M)
