"""C20 (the three ways of giving a style value - underscore keyword, nested dictionary, attribute assignment - are equivalent, for every style
family including dipole): Dipole.__init__ called `super().__init__(position, orientation, style, **kwargs)`; the third positional parameter
of BaseSource.__init__ is `field_func`, so the style dictionary was handed to the field function slot and
`Dipole(moment=(1,2,3), style={'color': 'r'})` raised "The `field_func` attribute should not be edited ...", while `style_color='r'` and every
other class accepted the same style.  Rule G25 (positional arguments of a parent-constructor call line up with the parent's parameters).
Observed first by a seeding sub-agent as a side remark on the pristine tree."""
import magpylib as magpy

a = magpy.misc.Dipole(moment=(1, 2, 3), style_color="r")
b = magpy.misc.Dipole(moment=(1, 2, 3), style={"color": "r"})          # raised AttributeError before the repair
c = magpy.misc.Dipole(moment=(1, 2, 3))
c.style.color = "r"
assert a.style.color == b.style.color == c.style.color == "red", (a.style.color, b.style.color, c.style.color)
assert b.field_func is not None and b.getB((1, 0, 0)).shape == (3,)
print("ok")
