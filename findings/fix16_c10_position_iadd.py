import numpy as np, magpylib as magpy
child = magpy.Sensor(position=(1,0,0))
col = magpy.Collection(child)
col.position += (1,0,0)
print(col.position, child.position)
assert np.allclose(child.position, (2,0,0))
