import magpylib as magpy
d={'color':'red'}
a=magpy.magnet.Cuboid(polarization=(0,0,1),dimension=(1,1,1),style=d,style_label='A')
b=magpy.magnet.Cuboid(polarization=(0,0,1),dimension=(1,1,1),style=d,style_label='B')
print(d, a.style.label, b.style.label)
ok1 = d=={'color':'red'} and a.style.label=='A' and b.style.label=='B'
d2={'color':'blue'}
c=magpy.Collection(magpy.Sensor(), magpy.Sensor())
c.set_children_styles(d2, opacity=0.5)
print(d2)
ok2 = d2=={'color':'blue'}
d3={'color':'green'}
s=magpy.Sensor()
magpy.show(s, style=d3, style_opacity=0.3, backend='plotly', return_fig=True)
print(d3)
ok3 = d3=={'color':'green'}
# capture: dict changed after construction but before first style access
d4={'color':'red'}
e=magpy.Sensor(style=d4); d4['color']='blue'
print(e.style.color)
ok4 = e.style.color=='red'
assert ok1 and ok2 and ok3 and ok4,(ok1,ok2,ok3,ok4)
