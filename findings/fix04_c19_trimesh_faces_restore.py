import numpy as np, magpylib as magpy
from unittest import mock
verts=np.array([(0,0,0),(1,0,0),(0,1,0),(0,0,1)],float)
v2=np.concatenate([verts, verts+5]); f=np.array([(0,1,2),(0,1,3),(0,2,3),(1,2,3)]); f2=np.concatenate([f,f+4])
tm=magpy.magnet.TriangularMesh(polarization=(0,0,1),vertices=v2,faces=f2,check_disconnected="ignore",reorient_faces=False)
n0=len(tm.faces)
tm.style.mesh.disconnected.show=True
import magpylib._src.display.traces_core as tc
calls={'n':0}
orig=tc.make_TriangularMesh_single
def boom(*a,**k):
    calls['n']+=1
    if calls['n']==2: raise RuntimeError("trace builder failed")
    return orig(*a,**k)
with mock.patch.object(tc,'make_TriangularMesh_single',boom):
    try: magpy.show(tm, backend='plotly', return_fig=True)
    except RuntimeError as e: print('raised',e)
print(n0, len(tm.faces))
assert len(tm.faces)==n0
