"""C09 (position and orientation paths always have equal length >= 1) / C17 (malformed input raises the library's input error at assignment; no
accepted object later fails inside a field computation with an internal error): `obj.position = np.zeros((0, 3))` passed the shape check (rank 2,
last axis 3) and left both paths with length 0 - the next getB raised IndexError; the same value in a constructor raised a ValueError from np.pad;
an empty scipy Rotation was accepted by the orientation setter (move / rotate with empty input stay the no-ops they were).  Rules S23 / P10 (the pose-path gates test for emptiness).
Observed first by a refactoring sub-agent ("empty paths are reachable through the public API")."""
import numpy as np
import magpylib as magpy
from magpylib._src.exceptions import MagpylibBadUserInput
from scipy.spatial.transform import Rotation as R

empty_rot = R.from_quat(np.zeros((0, 4)))
cases = {
    "position setter": lambda: setattr(magpy.Sensor(), "position", np.zeros((0, 3))),
    "constructor position": lambda: magpy.Sensor(position=np.zeros((0, 3))),
    "orientation setter": lambda: setattr(magpy.Sensor(), "orientation", empty_rot),
    "constructor orientation": lambda: magpy.Sensor(orientation=empty_rot),
}
bad = []
for name, f in cases.items():
    try:
        f()
        bad.append(f"{name}: accepted")
    except MagpylibBadUserInput:
        pass
    except Exception as e:  # noqa
        bad.append(f"{name}: {type(e).__name__} instead of the input error")
assert not bad, bad
s = magpy.Sensor(position=[(1, 2, 3)])
assert s.position.shape == (3,) and len(s.orientation.as_quat().reshape(-1, 4)) == 1
s.move(np.zeros((0, 3))); s.rotate(empty_rot)        # still accepted: nothing to apply
assert s.position.shape == (3,)
print("ok")
