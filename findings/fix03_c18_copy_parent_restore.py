import magpylib as magpy, threading
lock = threading.Lock()          # an un-copyable payload
def ff(field, observers): return observers*0
src = magpy.misc.CustomSource(field_func=ff)
src.style.model3d.add_trace(backend="generic", constructor="Scatter3d", kwargs={"x":[0],"y":[0],"z":[0],"lock":lock})
coll = magpy.Collection(src)
try:
    src.copy()
except Exception as e:
    print("copy failed:", type(e).__name__)
print(src.parent, coll.children)
assert src.parent is coll
