import numpy as np, magpylib as magpy
obs=np.array([(1.,2,3),(2,3,4),(.3,.2,.1),(4,5,6),(0,0,3)])
verts=np.array([(0,0,0),(1,0,0),(0,1,0),(0,0,1)],float)
# Tetrahedron: single polarization + single vertices + 5 observers
B1=magpy.getB(magpy.magnet.Tetrahedron(polarization=(1,2,3),vertices=verts), obs)
B2=magpy.getB('Tetrahedron', obs, polarization=(1,2,3), vertices=verts)
np.testing.assert_allclose(B1,B2)
tv=verts[:3]
B1=magpy.getB(magpy.misc.Triangle(polarization=(1,2,3),vertices=tv), obs)
B2=magpy.getB('Triangle', obs, polarization=(1,2,3), vertices=tv)
np.testing.assert_allclose(B1,B2)
faces=[(0,1,2),(0,1,3),(0,2,3),(1,2,3)]
tm=magpy.magnet.TriangularMesh(polarization=(1,2,3),vertices=verts,faces=faces)
B1=magpy.getB(tm, obs)
B2=magpy.getB('TriangularMesh', obs, polarization=(1,2,3), mesh=tm.mesh)
np.testing.assert_allclose(B1,B2)
print("ok")
