import magpylib as magpy
x=magpy.Sensor(); sub=magpy.Collection(x); col=magpy.Collection(sub)
try:
    col.remove(sub, x)
except Exception as e:
    print("raised", type(e).__name__)
print(x.parent, sub.children)
assert (x.parent is sub) == (x in sub.children)
