#!/venv/bin/python
"""Detection matrix: run every property check against every seeded change (each on its own scratch copy of /repo's working tree,
outside /repo and /verif, removed at once) and print which checks report a new finding.  Writes tools/seed_matrix.json.
usage: seed_matrix.py [seed-id-prefix ...]"""
import concurrent.futures as cf
import glob
import json
import os
import sys

HERE = os.path.dirname(os.path.abspath(__file__))
SA = os.path.join(os.path.dirname(HERE), "sa")
sys.path.insert(0, SA)
sys.dont_write_bytecode = True
PIDS = ["C02", "C03", "C04", "C05", "C06", "C07", "C08", "C09", "C10", "C11", "C12", "C17", "C18", "C19", "C20"]


def one(args):
    sid, patch, pid = args
    import selftest
    r = selftest._run_variant((pid, sid, "patch", patch, "fire", "/repo"))
    return sid, pid, r[2], r[3]


def main():
    pref = sys.argv[1:]
    seeds = sorted(glob.glob(os.path.join(os.path.dirname(HERE), "seeded", "*")))
    items = []
    for d in seeds:
        sid = os.path.basename(d)
        if pref and not any(sid.startswith(p) for p in pref):
            continue
        for pid in PIDS:
            items.append((sid, os.path.join(d, "patch.diff"), pid))
    out = {}
    with cf.ProcessPoolExecutor(max_workers=16) as ex:
        for sid, pid, got, detail in ex.map(one, items, chunksize=2):
            out.setdefault(sid, {})[pid] = (got, detail)
    res = {}
    for sid in sorted(out, key=lambda s: (s.split("-")[0], int(s.split("-")[1]))):
        fired = [p for p in PIDS if out[sid][p][0] == "fired"]
        errs = [p for p in PIDS if out[sid][p][0] in ("error", "skipped")]
        res[sid] = {"fired": fired, "errors": errs, "rules": {p: out[sid][p][1][:160] for p in fired}}
        print(f"{sid:8s} fired={','.join(fired) or '-':30s} {'ERR:' + ','.join(errs) if errs else ''}")
    path = os.path.join(HERE, "seed_matrix.json")
    if pref and os.path.exists(path):
        old = json.load(open(path))          # a partial run updates the rows it covered
        old.update(res)
        res = dict(sorted(old.items(), key=lambda kv: (kv[0].split("-")[0], int(kv[0].split("-")[1]))))
    json.dump(res, open(path, "w"), indent=1)


if __name__ == "__main__":
    main()
