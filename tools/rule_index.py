#!/venv/bin/python
"""Regenerate the table of DESIGN.md section 18 from /verif/evidence/*.json (rules and obligation counts of the last run)."""
import glob, json, os, re

HERE = os.path.dirname(os.path.abspath(__file__))
ROOT = os.path.dirname(HERE)
rows = []
for f in sorted(glob.glob(os.path.join(ROOT, "evidence", "C*.json"))):
    d = json.load(open(f))
    c = d["coverage"]
    pid = d["property_id"]
    rules = "; ".join(c.get("rules", []))
    rows.append(f"| {pid} | {rules} | {c.get('obligations')} ({c.get('distinct_nontrivial')} distinct) | `sa/props/{pid.lower()}.py` |")
table = "| property | rules decided by `/verif/check <ID>` | obligations (last quick run) | module |\n|---|---|---|---|\n" + "\n".join(rows) + "\n"
p = os.path.join(ROOT, "DESIGN.md")
s = open(p).read()
m = re.search(r"(## 18\. Rule index[^\n]*\n\n)(\| property \|.*?\n)(\n)", s, re.S)
s = s[:m.start(2)] + table + s[m.end(2):]
open(p, "w").write(s)
print(len(rows), "rows")
