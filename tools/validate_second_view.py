#!/venv/bin/python
"""Differential test of the second view (sa/inline.py) itself - this tests the CHECKER's program transformation, it decides no property.

  suite   : the helper-inlined / normalised copy of /repo's working tree must pass the same tests as the tree itself
  twins   : for every stored twin (/verif/twins/*), the second view of the patched tree must print the same `equiv.py` digest as the
            patched tree (the authors' scripts hash results, object state and error paths bit-exactly)
Scratch copies live in a temp dir outside /repo and /verif and are removed at once.
usage: validate_second_view.py suite | twins [dir ...]"""
import concurrent.futures as cf, glob, os, shutil, subprocess, sys, tempfile
HERE = os.path.dirname(os.path.abspath(__file__)); VERIF = os.path.dirname(HERE)
sys.path.insert(0, os.path.join(VERIF, "sa")); sys.dont_write_bytecode = True


def _copy_repo(dst):
    subprocess.run(["git", "-C", "/repo", "worktree", "list"], capture_output=True)
    shutil.copytree("/repo", dst, ignore=shutil.ignore_patterns(".git", "__pycache__", "*.pyc", ".pytest_cache"), symlinks=True)


def twin(d):
    import inline
    tmp = tempfile.mkdtemp(prefix="verif_sv_")
    try:
        a, b = os.path.join(tmp, "a"), os.path.join(tmp, "b")
        _copy_repo(a)
        r = subprocess.run(["git", "apply", "--whitespace=nowarn", os.path.join(d, "patch.diff")], cwd=a, capture_output=True, text=True)
        if r.returncode:
            return d, "skipped", "patch does not apply"
        shutil.copytree(a, b, ignore=shutil.ignore_patterns("magpylib"))
        rep = inline.build_inlined_tree(a, b)
        n = sum(rep["inlined"].values()) + sum(rep.get("normalised", {}).values()) + sum(rep.get("scalarised", {}).values()) + len(rep.get("constants_folded", []))
        outs = []
        for root in (a, b):
            os.makedirs(os.path.join(root, "twins", "k"), exist_ok=True)
            shutil.copy(os.path.join(d, "equiv.py"), os.path.join(root, "twins", "k", "equiv.py"))
            p = subprocess.run(["/venv/bin/python", "twins/k/equiv.py"], cwd=root, capture_output=True, text=True, timeout=1800,
                               env={**os.environ, "PYTHONDONTWRITEBYTECODE": "1", "MPLBACKEND": "Agg"})
            # a script that ends in an uncaught exception (e.g. it exercises a defect that was repaired since it was written): the exception
            # type and message count, the traceback's source lines (which differ between the views by construction) do not
            last = [l for l in p.stderr.strip().splitlines() if l and not l.startswith(" ")][-2:] if p.returncode else []
            outs.append(p.stdout + ("\n[uncaught] " + " | ".join(last) if p.returncode else ""))
        same = outs[0] == outs[1] and outs[0].strip() != ""
        return d, "same" if same else "DIFFERENT", f"{n} transformations, {len(outs[0].splitlines())} digest lines" + ("" if same else f"\n--- patched\n{outs[0][-600:]}\n--- second view\n{outs[1][-600:]}")
    except Exception as e:  # noqa
        return d, "error", f"{type(e).__name__}: {e}"
    finally:
        shutil.rmtree(tmp, ignore_errors=True)


def main():
    if sys.argv[1] == "suite":
        import inline
        tmp = tempfile.mkdtemp(prefix="verif_sv_")
        try:
            a, b = os.path.join(tmp, "a"), os.path.join(tmp, "b")
            _copy_repo(a)
            shutil.copytree(a, b, ignore=shutil.ignore_patterns("magpylib"))
            rep = inline.build_inlined_tree(a, b)
            print("second view of the working tree:", {k: (v if not isinstance(v, dict) else sum(v.values())) for k, v in rep.items()})
            p = subprocess.run("/venv/bin/python -m pytest -q -p no:cacheprovider -n 12 2>&1 | grep -E '^FAILED|^ERROR|passed|failed' | sort", shell=True, cwd=b, capture_output=True, text=True)
            print(p.stdout[-1500:])
        finally:
            shutil.rmtree(tmp, ignore_errors=True)
        return
    dirs = sys.argv[2:] or sorted(glob.glob(os.path.join(VERIF, "twins", "*-*")))
    bad = 0
    with cf.ProcessPoolExecutor(max_workers=12) as ex:
        for d, st, detail in ex.map(twin, dirs):
            if st != "same":
                bad += 1
            print(f"{os.path.basename(d):10s} {st:10s} {detail}")
    print(f"second-view validation: {len(dirs)} twins, {bad} not identical")


if __name__ == "__main__":
    main()
