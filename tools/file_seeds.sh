#!/bin/sh
# confirm every sub-agent seed against /repo HEAD in a scratch worktree and file the confirmed ones under /verif/seeded
WT=/tmp/wt/rebase
git -C $WT checkout -q --detach $(git -C /repo rev-parse HEAD)
for p in C02 C03 C04 C05 C06 C07 C08 C09 C10 C11 C12 C17 C18 C19 C20; do for k in 1 2 3; do
  d=/tmp/wt/$p/out/$k; [ -d $d ] || continue
  f=$d/patch.diff; [ -f $d/patch_rebased.diff ] && f=$d/patch_rebased.diff
  /verif/tools/confirm_seed.sh $WT $f $d/demo.py $p-$k $p 2>&1 | grep -v "^WARNING conda"
  [ -d /verif/seeded/$p-$k ] && cp $d/notes.md /verif/seeded/$p-$k/notes.md 2>/dev/null
done; done
