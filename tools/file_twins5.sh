#!/bin/sh
# file the fifth batch of twins: /tmp/wt/<P>/twins5/k -> /verif/twins/<P>-(20+k); report the ones that do not apply to /repo HEAD
for p in "$@"; do for k in 1 2 3 4 5; do
  d=/tmp/wt/$p/twins5/$k; [ -f $d/patch.diff ] || continue
  n=$((k+20)); t=/verif/twins/$p-$n; mkdir -p $t
  cp $d/patch.diff $d/notes.md $d/equiv.py $t/ 2>/dev/null
  git -C /repo apply --check $t/patch.diff 2>/dev/null || echo "DOES NOT APPLY: $p-$n"
done; done
