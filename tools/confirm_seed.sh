#!/bin/sh
# usage: confirm_seed.sh <scratch worktree at /repo HEAD> <patch.diff> <demo.py> <name> <property>
# confirms: demo passes without the change, fails with it, suite result equals the baseline; then files the seed
WT="$1"; P="$2"; D="$3"; NAME="$4"; PROP="$5"
cd "$WT" || exit 9
git checkout -q -- . ; git clean -fdq magpylib
mkdir -p .seedtmp && cp "$D" .seedtmp/demo.py
PYTHONPATH="$WT" /venv/bin/python .seedtmp/demo.py >/dev/null 2>&1; d0=$?
git apply "$P" || { echo "patch does not apply"; exit 8; }
PYTHONPATH="$WT" /venv/bin/python .seedtmp/demo.py >/dev/null 2>&1; d1=$?
suite=$(/venv/bin/python -m pytest -q -p no:cacheprovider -n 8 2>&1 | tail -1)
git checkout -q -- . ; git clean -fdq magpylib
echo "$NAME: demo_without=$d0 demo_with=$d1 suite='$suite'"
case "$suite" in *"12 failed, 1096 passed"*) ok=1;; *) ok=0;; esac
if [ $d0 -eq 0 ] && [ $d1 -ne 0 ] && [ $ok -eq 1 ]; then
  mkdir -p /verif/seeded/$NAME && cp "$P" /verif/seeded/$NAME/patch.diff && cp "$D" /verif/seeded/$NAME/demo.py
  echo "{\"property\": \"$PROP\", \"confirmed\": {\"demo_exit_without_change\": $d0, \"demo_exit_with_change\": $d1, \"suite\": \"$suite\"}, \"ran\": \"tools/confirm_seed.sh in a scratch worktree of /repo HEAD $(git -C /repo rev-parse --short HEAD)\"}" > /verif/seeded/$NAME/meta.json
  echo CONFIRMED
else echo REJECTED; fi
rm -rf .seedtmp
