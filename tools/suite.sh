#!/bin/sh
# run /repo's suite; exit 0 iff the result equals the baseline (12 known offline failures, 1096 pass)
cd "${1:-/repo}" && out=$(/venv/bin/python -m pytest -q -p no:cacheprovider -n 8 2>&1 | tail -1); echo "$out"
case "$out" in *"12 failed, 1096 passed"*) exit 0;; *) exit 1;; esac
