#!/venv/bin/python
"""Every behaviour-preserving twin of sa/mutants.py against every property check: none may report a finding or an analysis error."""
import concurrent.futures as cf, os, sys
HERE = os.path.dirname(os.path.abspath(__file__)); SA = os.path.join(os.path.dirname(HERE), "sa")
sys.path.insert(0, SA); sys.dont_write_bytecode = True
PIDS = ["C02", "C03", "C04", "C05", "C06", "C07", "C08", "C09", "C10", "C11", "C12", "C17", "C18", "C19", "C20"]
def one(a):
    import selftest
    return a[0], a[1], selftest._run_variant(a)[2:]
def main():
    import mutants
    items = []
    for m in mutants.MUTANTS:
        if m.get("expect") == "silent" and "sign" not in m["name"] and "re-ordered rotation stack" not in m["name"]:
            for pid in PIDS:
                items.append((pid, m["name"], "edit", {"file": m["file"], "old": m["old"], "new": m["new"]}, "silent", "/repo"))
    bad = 0
    with cf.ProcessPoolExecutor(max_workers=16) as ex:
        for pid, name, (got, detail) in ex.map(one, items, chunksize=2):
            if got not in ("silent", "skipped"):
                bad += 1
                print(f"{pid} {name}: {got} {detail[:200]}")
    print(f"twins x checks: {len(items)} runs, {bad} not silent")
if __name__ == "__main__":
    main()
