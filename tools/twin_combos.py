#!/venv/bin/python
"""apply random combinations of k stored twins (that apply together) to a scratch copy and run all 15 checks: every combination is
still behaviour-preserving, so every check must stay silent (except the pairs listed in twins/EXPECTED.json).
usage: twin_combos.py [n_combos=30] [k=3] [seed=1]"""
import concurrent.futures as cf, glob, json, os, random, shutil, subprocess, sys, tempfile
HERE = os.path.dirname(os.path.abspath(__file__)); VERIF = os.path.dirname(HERE); SA = os.path.join(VERIF, "sa")
sys.path.insert(0, SA); sys.dont_write_bytecode = True
PIDS = ["C02", "C03", "C04", "C05", "C06", "C07", "C08", "C09", "C10", "C11", "C12", "C17", "C18", "C19", "C20"]


def build(combo):
    root = tempfile.mkdtemp(prefix="verif_combo_")
    shutil.copytree("/repo/magpylib", os.path.join(root, "magpylib"), ignore=shutil.ignore_patterns("__pycache__", "*.pyc"))
    used = []
    for t in combo:
        r = subprocess.run(["git", "apply", "--whitespace=nowarn", os.path.join(VERIF, "twins", t, "patch.diff")], cwd=root, capture_output=True)
        if r.returncode == 0:
            used.append(t)
    return root, used


def one(args):
    combo, pid = args
    import importlib, common, decide
    root, used = build(combo)
    try:
        mod = importlib.import_module(f"props.{pid.lower()}")
        try:
            res, err, _ = decide.decide(pid, mod, root, "quick")
            st = "ok" if err is None else f"analysis-error: {err}"
        except Exception as e:  # noqa
            return used, pid, f"crash: {type(e).__name__}: {e}"
        new = res.new_findings()
        if new:
            return used, pid, "fired: " + "; ".join(f"[{f.rule}] {f.func}: {f.construct[:50]}" for f in new[:3])
        return used, pid, st
    finally:
        common.REPO = "/repo"
        shutil.rmtree(root, ignore_errors=True)


def main():
    n = int(sys.argv[1]) if len(sys.argv) > 1 else 30
    k = int(sys.argv[2]) if len(sys.argv) > 2 else 3
    rnd = random.Random(int(sys.argv[3]) if len(sys.argv) > 3 else 1)
    twins = sorted(os.path.basename(os.path.dirname(p)) for p in glob.glob(os.path.join(VERIF, "twins", "*", "patch.diff")))
    notreq = json.load(open(os.path.join(VERIF, "twins", "EXPECTED.json")))["not_required_silent"]
    combos = [tuple(rnd.sample(twins, k)) for _ in range(n)]
    items = [(c, p) for c in combos for p in PIDS]
    bad = 0
    with cf.ProcessPoolExecutor(max_workers=14) as ex:
        for used, pid, st in ex.map(one, items, chunksize=2):
            expected = any(t in notreq and pid in notreq[t]["checks"] for t in used)
            if st != "ok" and not expected:
                bad += 1
                print(f"{'+'.join(used):40s} {pid}: {st[:300]}")
    print(f"twin combinations: {n} x {k} twins x {len(PIDS)} checks, {bad} not silent")


if __name__ == "__main__":
    main()
