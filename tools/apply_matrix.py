#!/venv/bin/python
"""Write the detection matrix (tools/seed_matrix.json, produced by seed_matrix.py) into sa/mutants.py (SEED_DETECTION: which checks
must keep firing on which seeded change - enforced by the thorough tier) and into each seeded/<id>/meta.json."""
import json, os, re
V = os.path.dirname(os.path.dirname(os.path.abspath(__file__)))
mx = json.load(open(os.path.join(V, "tools", "seed_matrix.json")))
p = os.path.join(V, "sa", "mutants.py")
s = open(p).read()
i = s.index("SEED_DETECTION = {")
lines = ["SEED_DETECTION = {"]
def rnd(sid): return (int(sid.split("-")[1]) - 1) // 3 + 1
cur = None
for sid, d in mx.items():
    if rnd(sid) != cur:
        cur = rnd(sid)
for r in sorted({rnd(sid) for sid in mx}):
    lines.append(f"    # ---- round {r}")
    row = []
    for sid, d in mx.items():
        if rnd(sid) == r:
            row.append(f'"{sid}": {json.dumps(d["fired"])}')
    for j in range(0, len(row), 3):
        lines.append("    " + ", ".join(row[j:j + 3]) + ",")
lines.append("}")
s = s[:i] + "\n".join(lines) + "\n"
open(p, "w").write(s)
for sid, d in mx.items():
    mp = os.path.join(V, "seeded", sid, "meta.json")
    m = json.load(open(mp))
    m.update({"seed": sid, "breaks_property": sid.split("-")[0], "round": rnd(sid), "needs_to_manifest": "see notes.md",
              "detected_by_checks": d["fired"], "detection_status": "detected" if d["fired"] else "missed (see DESIGN.md)",
              "reported_rules": d["rules"],
              "how_to_rerun": f"tools/seedrun.sh /verif/seeded/{sid}/patch.diff {' '.join(d['fired']) or sid.split('-')[0]}"})
    json.dump(m, open(mp, "w"), indent=1)
print("seeds:", len(mx), "detected:", sum(1 for d in mx.values() if d["fired"]), "own-check:", sum(1 for k, d in mx.items() if k.split('-')[0] in d["fired"]))
