#!/bin/sh
# usage: seedrun.sh <patch.diff> <ID> [<ID>...]   - apply a seeded change to /repo, run checks, undo it straight afterwards
P="$(readlink -f "$1")"; shift
cd /repo || exit 9
if [ -n "$(git status --porcelain --untracked-files=no)" ]; then echo "repo dirty, refusing"; exit 9; fi
git apply "$P" 2>/dev/null || git apply -3 "$P" 2>/dev/null || { echo "PATCH-DOES-NOT-APPLY $P"; git checkout -q HEAD -- . ; exit 8; }
rc=0
for id in "$@"; do
  VERIF_EVIDENCE_DIR=/tmp/seed_evidence /verif/check "$id" 2>&1 | grep -v "^WARNING conda" | cut -c1-400
done
git checkout -q HEAD -- . ; git clean -fdq magpylib
