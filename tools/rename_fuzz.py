"""Rename fuzz: every local variable of one function renamed and the whole module re-emitted through ast.unparse (reformatted, comments\nstripped); all 15 checks must stay silent.  Scratch copies live in a temp dir and are removed at once."""
import ast, os, sys, shutil, tempfile, subprocess, json, builtins
sys.path.insert(0,'/verif/sa')
TARGETS=[('magpylib/_src/fields/field_BH_triangularmesh.py','mask_inside_enclosing_box'),('magpylib/_src/fields/field_BH_triangularmesh.py','lines_end_in_trimesh'),('magpylib/_src/fields/field_BH_cylinder_segment.py','BHJM_cylinder_segment'),('magpylib/_src/fields/field_BH_triangle.py','triangle_Bfield'),('magpylib/_src/obj_classes/class_BaseExcitations.py','magnetization'),('magpylib/_src/fields/special_el3.py','el3v'),('magpylib/_src/fields/field_BH_polyline.py','current_vertices_field'),('magpylib/_src/obj_classes/class_BaseGeo.py','position'),('magpylib/_src/obj_classes/class_BaseGeo.py','orientation'),('magpylib/_src/fields/field_wrap_BH.py','getBH_level2'),('magpylib/_src/fields/field_wrap_BH.py','get_src_dict'),('magpylib/_src/fields/field_wrap_BH.py','getBH_level1'),('magpylib/_src/fields/field_wrap_BH.py','getBH_dict_level2'),
 ('magpylib/_src/fields/field_BH_cylinder.py','BHJM_magnet_cylinder'),('magpylib/_src/fields/field_BH_cuboid.py','BHJM_magnet_cuboid'),('magpylib/_src/fields/field_BH_triangularmesh.py','BHJM_magnet_trimesh'),
 ('magpylib/_src/obj_classes/class_BaseTransform.py','apply_rotation'),('magpylib/_src/obj_classes/class_BaseTransform.py','apply_move'),('magpylib/_src/obj_classes/class_BaseTransform.py','path_padding'),
 ('magpylib/_src/obj_classes/class_Collection.py','add'),('magpylib/_src/obj_classes/class_Collection.py','remove'),('magpylib/_src/obj_classes/class_BaseGeo.py','copy'),
 ('magpylib/_src/style.py','get_style'),('magpylib/_src/utility.py','check_static_sensor_orient'),('magpylib/_src/display/traces_utility.py','place_and_orient_model3d'),
 ('magpylib/_src/display/traces_core.py','make_TriangularMesh'),('magpylib/_src/input_checks.py','check_format_input_vector'),('magpylib/_src/fields/special_cel.py','celv'),
 ('magpylib/_src/fields/field_wrap_BH.py','tile_group_property'),('magpylib/_src/display/traces_generic.py','make_path'),('magpylib/_src/display/traces_generic.py','get_frames'),
 ('magpylib/_src/utility.py','get_unit_factor'),('magpylib/_src/display/traces_utility.py','get_rot_pos_from_path'),('magpylib/_src/input_checks.py','check_format_pixel_agg'),
 ('magpylib/_src/input_checks.py','validate_field_func'),('magpylib/_src/defaults/defaults_utility.py','magic_to_dict'),('magpylib/_src/obj_classes/class_Sensor.py','handedness'),
 ('magpylib/_src/obj_classes/class_BaseGeo.py','_validate_style'),('magpylib/_src/style.py','get_families'),('magpylib/_src/fields/field_BH_cylinder_segment.py','BHJM_cylinder_segment_internal'),
 ('magpylib/_src/obj_classes/class_BaseTransform.py','rotate_from_euler'),('magpylib/_src/input_checks.py','check_format_input_orientation'),('magpylib/_src/obj_classes/class_Collection.py','children'),
 ('magpylib/_src/input_checks.py','make_float_array'),('magpylib/_src/fields/field_BH_tetrahedron.py','BHJM_magnet_tetrahedron'),('magpylib/_src/obj_classes/class_BaseTransform.py','_rotate'),
 ('magpylib/_src/utility.py','format_src_inputs'),('magpylib/_src/input_checks.py','check_format_input_obj')]
class Ren(ast.NodeTransformer):
    def __init__(self,names): self.names=names
    def visit_Name(self,n):
        if n.id in self.names: n.id=n.id+'_rn'
        return n
def variant(path,fname):
    src=open('/repo/'+path).read(); tree=ast.parse(src)
    done=False
    for node in ast.walk(tree):
        if isinstance(node,ast.FunctionDef) and node.name==fname and not done:
            params={a.arg for a in node.args.args+node.args.kwonlyargs+node.args.posonlyargs}
            if node.args.vararg: params.add(node.args.vararg.arg)
            if node.args.kwarg: params.add(node.args.kwarg.arg)
            stores={x.id for x in ast.walk(node) if isinstance(x,ast.Name) and isinstance(x.ctx,ast.Store)}
            glob={x for s in ast.walk(node) if isinstance(s,(ast.Global,ast.Nonlocal)) for x in s.names}
            imported={a.asname or a.name for s in ast.walk(node) if isinstance(s,(ast.Import,ast.ImportFrom)) for a in s.names}
            names=stores-params-glob-imported-set(dir(builtins))
            Ren(names).visit(node); done=True
    return ast.unparse(tree)
import concurrent.futures as cf
def one(t):
    path,fname=t
    root=tempfile.mkdtemp(prefix='twinfuzz_')
    shutil.copytree('/repo/magpylib',root+'/magpylib',ignore=shutil.ignore_patterns('__pycache__'))
    open(root+'/'+path,'w').write(variant(path,fname))
    out=[]
    for p in "C02 C03 C04 C05 C06 C07 C08 C09 C10 C11 C12 C17 C18 C19 C20".split():
        r=subprocess.run(['/venv/bin/python','-B','/verif/sa/check.py',p,'--repo',root],capture_output=True,text=True,env={**os.environ,'VERIF_EVIDENCE_DIR':'/tmp/verif_renamefuzz_ev'})
        if r.returncode!=0:
            lines=[l for l in r.stdout.splitlines() if 'finding:' in l or 'ANALYSIS-ERROR' in l]
            out.append((p,r.returncode,lines[:3]))
    shutil.rmtree(root)
    return fname, out

if __name__ == "__main__":
    os.makedirs('/tmp/verif_renamefuzz_ev', exist_ok=True)
    bad=0
    with cf.ProcessPoolExecutor(max_workers=8) as ex:
        for fname,out in ex.map(one, TARGETS):
            print(fname, 'OK' if not out else out, flush=True); bad+=bool(out)
    print(f"rename fuzz: {len(TARGETS)} functions, {bad} with a non-silent check")
