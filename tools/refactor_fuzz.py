"""Refactor fuzz (modes: rename, flip comparisons, commute operands, swap if/else, return through a temporary).
Rename fuzz: every local variable of one function renamed and the whole module re-emitted through ast.unparse (reformatted, comments\nstripped); all 15 checks must stay silent.  Scratch copies live in a temp dir and are removed at once."""
import ast, os, sys, shutil, tempfile, subprocess, json, builtins
sys.path.insert(0,'/verif/sa')
TARGETS=[('magpylib/_src/fields/field_BH_triangularmesh.py','mask_inside_enclosing_box'),('magpylib/_src/fields/field_BH_triangularmesh.py','lines_end_in_trimesh'),('magpylib/_src/fields/field_BH_cylinder_segment.py','BHJM_cylinder_segment'),('magpylib/_src/fields/field_BH_triangle.py','triangle_Bfield'),('magpylib/_src/obj_classes/class_BaseExcitations.py','magnetization'),('magpylib/_src/fields/special_el3.py','el3v'),('magpylib/_src/fields/field_BH_polyline.py','current_vertices_field'),('magpylib/_src/obj_classes/class_BaseGeo.py','position'),('magpylib/_src/obj_classes/class_BaseGeo.py','orientation'),('magpylib/_src/fields/field_wrap_BH.py','getBH_level2'),('magpylib/_src/fields/field_wrap_BH.py','get_src_dict'),('magpylib/_src/fields/field_wrap_BH.py','getBH_level1'),('magpylib/_src/fields/field_wrap_BH.py','getBH_dict_level2'),
 ('magpylib/_src/fields/field_BH_cylinder.py','BHJM_magnet_cylinder'),('magpylib/_src/fields/field_BH_cuboid.py','BHJM_magnet_cuboid'),('magpylib/_src/fields/field_BH_triangularmesh.py','BHJM_magnet_trimesh'),
 ('magpylib/_src/obj_classes/class_BaseTransform.py','apply_rotation'),('magpylib/_src/obj_classes/class_BaseTransform.py','apply_move'),('magpylib/_src/obj_classes/class_BaseTransform.py','path_padding'),
 ('magpylib/_src/obj_classes/class_Collection.py','add'),('magpylib/_src/obj_classes/class_Collection.py','remove'),('magpylib/_src/obj_classes/class_BaseGeo.py','copy'),
 ('magpylib/_src/style.py','get_style'),('magpylib/_src/utility.py','check_static_sensor_orient'),('magpylib/_src/display/traces_utility.py','place_and_orient_model3d'),
 ('magpylib/_src/display/traces_core.py','make_TriangularMesh'),('magpylib/_src/input_checks.py','check_format_input_vector'),('magpylib/_src/fields/special_cel.py','celv'),
 ('magpylib/_src/fields/field_wrap_BH.py','tile_group_property'),('magpylib/_src/display/traces_generic.py','make_path'),('magpylib/_src/display/traces_generic.py','get_frames'),
 ('magpylib/_src/utility.py','get_unit_factor'),('magpylib/_src/display/traces_utility.py','get_rot_pos_from_path'),('magpylib/_src/input_checks.py','check_format_pixel_agg'),
 ('magpylib/_src/input_checks.py','validate_field_func'),('magpylib/_src/defaults/defaults_utility.py','magic_to_dict'),('magpylib/_src/obj_classes/class_Sensor.py','handedness'),
 ('magpylib/_src/obj_classes/class_BaseGeo.py','_validate_style'),('magpylib/_src/style.py','get_families'),('magpylib/_src/fields/field_BH_cylinder_segment.py','BHJM_cylinder_segment_internal'),
 ('magpylib/_src/obj_classes/class_BaseTransform.py','rotate_from_euler'),('magpylib/_src/input_checks.py','check_format_input_orientation'),('magpylib/_src/obj_classes/class_Collection.py','children'),
 ('magpylib/_src/input_checks.py','make_float_array'),('magpylib/_src/fields/field_BH_tetrahedron.py','BHJM_magnet_tetrahedron'),('magpylib/_src/obj_classes/class_BaseTransform.py','_rotate'),
 ('magpylib/_src/utility.py','format_src_inputs'),('magpylib/_src/input_checks.py','check_format_input_obj')]
FLIP={ast.Lt:ast.Gt,ast.Gt:ast.Lt,ast.LtE:ast.GtE,ast.GtE:ast.LtE,ast.Eq:ast.Eq,ast.NotEq:ast.NotEq}
class Flip(ast.NodeTransformer):
    """a < b  ->  b > a (every single-operator ordering / equality comparison)"""
    def visit_Compare(self,n):
        self.generic_visit(n)
        if len(n.ops)==1 and type(n.ops[0]) in FLIP and not (isinstance(n.comparators[0],ast.Constant) and n.comparators[0].value is None):
            n.left,n.comparators,n.ops=n.comparators[0],[n.left],[FLIP[type(n.ops[0])]()]
        return n
class Commute(ast.NodeTransformer):
    """a * b -> b * a, m1 & m2 -> m2 & m1 (numeric / mask operands only)"""
    def visit_BinOp(self,n):
        self.generic_visit(n)
        numeric=any(isinstance(x,ast.Constant) and isinstance(x.value,(int,float)) for x in (n.left,n.right))   # rotations do not commute
        if (isinstance(n.op,(ast.BitAnd,ast.BitOr)) or (isinstance(n.op,ast.Mult) and numeric)) and not any(isinstance(x,(ast.List,ast.Tuple,ast.JoinedStr)) or (isinstance(x,ast.Constant) and isinstance(x.value,str)) for x in (n.left,n.right)):
            n.left,n.right=n.right,n.left
        return n
class IfSwap(ast.NodeTransformer):
    """if c: A else: B  ->  if not c: B else: A   (plain else branches only)"""
    def visit_If(self,n):
        self.generic_visit(n)
        if n.orelse and not (len(n.orelse)==1 and isinstance(n.orelse[0],ast.If)):
            n.test=ast.UnaryOp(op=ast.Not(),operand=n.test); n.body,n.orelse=n.orelse,n.body
        return n
class TmpRet(ast.NodeTransformer):
    """return <expr>  ->  _rv = <expr>; return _rv"""
    def visit_FunctionDef(self,f):
        self.generic_visit(f); return f
    def _blk(self,stmts):
        out=[]
        for s in stmts:
            if isinstance(s,ast.Return) and s.value is not None and not isinstance(s.value,(ast.Name,ast.Constant)):
                out.append(ast.Assign(targets=[ast.Name(id='_rv',ctx=ast.Store())],value=s.value)); out.append(ast.Return(value=ast.Name(id='_rv',ctx=ast.Load())))
            else: out.append(s)
        return out
    def generic_visit(self,node):
        super().generic_visit(node)
        for f in ('body','orelse','finalbody'):
            if isinstance(getattr(node,f,None),list) and getattr(node,f) and isinstance(getattr(node,f)[0],ast.stmt):
                setattr(node,f,self._blk(getattr(node,f)))
        for h in getattr(node,'handlers',[]) or []:
            h.body=self._blk(h.body)
        return node
MODE='rename'
class Ren(ast.NodeTransformer):
    def __init__(self,names): self.names=names
    def visit_Name(self,n):
        if n.id in self.names: n.id=n.id+'_rn'
        return n
def variant(path,fname):
    src=open('/repo/'+path).read(); tree=ast.parse(src)
    done=False
    for node in ast.walk(tree):
        if isinstance(node,ast.FunctionDef) and node.name==fname and not done:
            params={a.arg for a in node.args.args+node.args.kwonlyargs+node.args.posonlyargs}
            if node.args.vararg: params.add(node.args.vararg.arg)
            if node.args.kwarg: params.add(node.args.kwarg.arg)
            stores={x.id for x in ast.walk(node) if isinstance(x,ast.Name) and isinstance(x.ctx,ast.Store)}
            glob={x for s in ast.walk(node) if isinstance(s,(ast.Global,ast.Nonlocal)) for x in s.names}
            imported={a.asname or a.name for s in ast.walk(node) if isinstance(s,(ast.Import,ast.ImportFrom)) for a in s.names}
            names=stores-params-glob-imported-set(dir(builtins))
            if MODE=='rename': Ren(names).visit(node)
            elif MODE=='flip': Flip().visit(node)
            elif MODE=='commute': Commute().visit(node)
            elif MODE=='ifswap': IfSwap().visit(node)
            elif MODE=='tmpret': TmpRet().visit(node)
            ast.fix_missing_locations(node); done=True
    return ast.unparse(tree)
import concurrent.futures as cf
def one(t):
    global MODE
    path,fname,MODE=t
    root=tempfile.mkdtemp(prefix='twinfuzz_')
    shutil.copytree('/repo/magpylib',root+'/magpylib',ignore=shutil.ignore_patterns('__pycache__'))
    open(root+'/'+path,'w').write(variant(path,fname))
    out=[]
    for p in "C02 C03 C04 C05 C06 C07 C08 C09 C10 C11 C12 C17 C18 C19 C20".split():
        r=subprocess.run(['/venv/bin/python','-B','/verif/sa/check.py',p,'--repo',root],capture_output=True,text=True,env={**os.environ,'VERIF_EVIDENCE_DIR':'/tmp/verif_renamefuzz_ev'})
        if r.returncode!=0:
            lines=[l.strip()[:150] for l in r.stdout.splitlines() if 'finding:' in l or 'ANALYSIS-ERROR' in l]
            out.append((p,r.returncode,lines[:3]))
    shutil.rmtree(root)
    return fname, out

if __name__ == "__main__":
    os.makedirs('/tmp/verif_renamefuzz_ev', exist_ok=True)
    modes=sys.argv[1:] or ['rename','flip','commute','ifswap','tmpret']
    for mode in modes:
        bad=0
        with cf.ProcessPoolExecutor(max_workers=12) as ex:
            for fname,out in ex.map(one, [(p,f,mode) for p,f in TARGETS]):
                if out: print(mode, fname, out, flush=True); bad+=1
        print(f"refactor fuzz [{mode}]: {len(TARGETS)} functions, {bad} with a non-silent check", flush=True)
