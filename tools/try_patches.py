#!/venv/bin/python
"""run all 15 checks against patches given as NAME=path on scratch copies of /repo's working tree (parallel); print which fire"""
import concurrent.futures as cf, os, sys
HERE = os.path.dirname(os.path.abspath(__file__)); SA = os.path.join(os.path.dirname(HERE), "sa")
sys.path.insert(0, SA); sys.dont_write_bytecode = True
PIDS = ["C02", "C03", "C04", "C05", "C06", "C07", "C08", "C09", "C10", "C11", "C12", "C17", "C18", "C19", "C20"]
def one(a):
    import selftest
    return a[1], a[0], selftest._run_variant(a)[2:]
if __name__ == "__main__":
    items = []
    for arg in sys.argv[1:]:
        name, path = arg.split("=", 1)
        for pid in PIDS:
            items.append((pid, name, "patch", path, "fire", "/repo"))
    out = {}
    with cf.ProcessPoolExecutor(max_workers=10) as ex:
        for name, pid, (got, detail) in ex.map(one, items, chunksize=3):
            out.setdefault(name, []).append((pid, got, detail))
    for name in sorted(out):
        fired = [(p, d) for p, g, d in out[name] if g == "fired"]
        errs = [(p, d) for p, g, d in out[name] if g in ("error", "skipped")]
        print(f"{name}: fired={','.join(p for p, _ in fired) or '-'}" + (f"  ERR={[(p, d[:80]) for p, d in errs]}" if errs else ""))
        for p, d in fired:
            print(f"      {p}: {d[:200]}")
