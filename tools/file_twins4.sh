#!/bin/sh
# file the fourth batch of twins: /tmp/wt/<P>/twins4/k -> /verif/twins/<P>-(15+k); then run all checks on them
args=""
for p in "$@"; do for k in 1 2 3 4 5; do
  d=/tmp/wt/$p/twins4/$k; [ -f $d/patch.diff ] || continue
  n=$((k+15)); t=/verif/twins/$p-$n; mkdir -p $t
  cp $d/patch.diff $d/notes.md $d/equiv.py $t/ 2>/dev/null
  git -C /repo apply --check $t/patch.diff || echo "DOES NOT APPLY: $t"
  args="$args $p-$n=$t/patch.diff"
done; done
/verif/tools/try_patches.py $args 2>&1 | grep -v "^WARNING conda"
