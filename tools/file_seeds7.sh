#!/bin/sh
# round 7: confirm seeds under /tmp/wt/<P>/out7/k against /repo HEAD and file them as <P>-(k+18)
WT=/tmp/wt/rebase
git -C $WT checkout -q --detach $(git -C /repo rev-parse HEAD)
for p in "$@"; do for k in 1 2 3; do
  d=/tmp/wt/$p/out7/$k; [ -f $d/patch.diff ] || continue
  f=$d/patch.diff; [ -f $d/patch_rebased.diff ] && f=$d/patch_rebased.diff
  n=$((k+18))
  /verif/tools/confirm_seed.sh $WT $f $d/demo.py $p-$n $p 2>&1 | grep -v "^WARNING conda"
  [ -d /verif/seeded/$p-$n ] && cp $d/notes.md /verif/seeded/$p-$n/notes.md 2>/dev/null
done; done
