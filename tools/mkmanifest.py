#!/venv/bin/python
"""regenerate /verif/MANIFEST.json from the MANIFEST dicts of sa/props/*.py (checks) and the N/A table below"""
import importlib, json, os, sys
sys.dont_write_bytecode = True
V = "/verif"
sys.path.insert(0, os.path.join(V, "sa"))
NA = {
 'C01': 'equality of floating-point closed forms with first-principles integrals over a continuous input space; no sound static bound on values',
 'C13': 'numerical identities between independently implemented closed forms and partitions; no structural clause that stands for the property',
 'C14': 'flux/circulation are integrals of computed values; no structural clause',
 'C15': 'finiteness at exact coincidences and termination of data-dependent convergence loops are value-level facts',
 'C16': 'correctness of geometric/combinatorial mesh algorithms on arbitrary meshes; only its tolerance clause is structural and that is decided under C12',
}
props = [json.loads(l) for l in open(os.path.join(V, "properties.jsonl"))]
checks, na = [], []
for p in props:
    pid = p["id"]
    path = os.path.join(V, "sa", "props", pid.lower() + ".py")
    if os.path.exists(path) and pid not in NA:
        m = importlib.import_module("props." + pid.lower()).MANIFEST
        checks.append({
            "property_id": pid,
            "quick_cmd": f"/verif/check {pid} --tier quick",
            "thorough_cmd": f"/verif/check {pid} --tier thorough",
            "evidence_file": f"/verif/evidence/{pid}.json",
            "replay_cmd_template": f"/verif/check {pid} --tier quick  # findings are listed in {{path}}",
            "engine": "sa",
            "level_claimed": {"category": m["category"], "text": m["text"], "design_ref": m["design_ref"]},
            "level_note": m["note"],
            "technique": m["technique"],
        })
    else:
        na.append({"property_id": pid, "reason": NA.get(pid, "static check designed (DESIGN.md §3) but not yet registered; machinery under construction")})
man = {
 "version": 1,
 "setup_cmd": "true",
 "hooks": {"guard": "MAGPYLIB_VERIF", "enable": "no hooks: every check is static and reads /repo's working tree",
           "baseline_off_cmd": "cd /repo && /venv/bin/python -m pytest -ra -q -p no:cacheprovider --timeout=900 --continue-on-collection-errors",
           "source_commits": [], "add_only": True},
 "engines": [{"name": "sa", "path": "/verif/sa", "serves_properties": [c["property_id"] for c in checks],
              "kind_free_text": "repository-specific static analyses in pure python ast: repo model + call graph, structured CFG with exceptional exits "
                                "(typestate / swap-restore), abstract interpreter with dimension, frame, linearity, layout and origin lattices, length evaluation over "
                                "input-length orderings, table cross-checkers; two-view decision (plain tree, then a behaviour-preserving normal form with new helpers, "
                                "closures, context managers, record classes, property factories and constants folded back - DESIGN.md section 20)"}],
 "checks": checks,
 "notes": "static analysis only: no check imports or runs magpylib. Partial claims: each check decides the structural clause(s) named in level_claimed.text; see DESIGN.md. "
          "The thorough tier adds the self-validation of the checker: must-fire mutants and detected seeds, and 375 independent behaviour-preserving refactorings (/verif/twins, minus the few listed with a reason in twins/EXPECTED.json) "
          "that must stay silent.",
 "not_applicable": na,
}
json.dump(man, open(os.path.join(V, "MANIFEST.json"), "w"), indent=1)
print("checks:", [c["property_id"] for c in checks], "na:", [x["property_id"] for x in na])
